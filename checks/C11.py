"""C11 - token-editing transformations change exactly the targeted tokens."""
import contextlib
import io
import itertools
import os
import re
import tempfile
from hypothesis import strategies as st

from vlib import model as M
from vlib import strategies as S
from vlib.runner import Unit, violation, call, Violation
from vlib.repo import T, transform

RULE = ("Hypothesis trees (<=8/12 tokens, discontinuous or not, unary chains) with punctuation / trace tokens at every position and depth and at least "
        "one ordinary token; terminal files (fresh unique name per case) with valid, out-of-range, zero and duplicate indices and foreign sentence "
        "ids; parameters quiet, keep, keepall, keepcoindex, slash, filteroperator/filtervalue. Oracle: list-based reference of the documented edit on "
        "the (word, POS) sequence + pruning of token-less constituents on the set model; the returned node must be the parentless root of a "
        "well-formed tree equal to that reference; deleted punctuation is reported on stdout with original positions; duplicate indices raise "
        "ValueError. Non-trivial = at least one token affected and one unaffected; distinct by digest of (operation, parameters, tree).")
ASSUMPTIONS = ["insert_terminals inserts AT the given index, processing indices in ascending order (pinned by the repository's own test)",
               "with slash only token-level claims are checked and an exception discards the case (documented failure modes of the slash annotation)",
               "negative indices in terminal files are not generated"]

PUNCT = set(S.PUNCT_WORDS)
COUNTER = itertools.count()


def snap(prefix, tree):
    try:
        return M.snapshot(tree)[0]
    except M.Malformed as bad:
        raise violation(prefix + "/malformed:" + bad.reason, str(bad))


def prune(root, drop):
    """Reference: remove the tokens in `drop` (set of token numbers), prune token-less constituents, renumber."""
    keep = sorted(n for n in M.nums(root) if n not in drop)
    renum = {old: new for new, old in enumerate(keep, 1)}

    def rec(node):
        if M.is_tok(node):
            if node["n"] in drop:
                return None
            new = dict(node)
            new["n"] = renum[node["n"]]
            return new
        kids = [k for k in (rec(c) for c in node["c"]) if k is not None]
        if not kids:
            return None
        new = dict(node)
        new["c"] = kids
        return new
    out = rec(root)
    return out


FIELDS = dict(tok_fields=("w", "p", "lem", "m", "e"), con_fields=("l", "e"))


def compare(prefix, result, expected, what):
    got = snap(prefix, result)
    if [(t["w"], t["p"]) for t in M.toks(got)] != [(t["w"], t["p"]) for t in M.toks(expected)]:
        raise violation(prefix + "/sentence", "%s: sentence is %r, expected %r" % (what, [(t["w"], t["p"]) for t in M.toks(got)], [(t["w"], t["p"]) for t in M.toks(expected)]))
    if M.canon(got, **FIELDS) != M.canon(expected, **FIELDS):
        raise violation(prefix + "/structure", "%s: tree differs from the reference (pruning / attachment / labels)" % what)
    return got


def terminal_file(lines):
    path = os.path.join(tempfile.gettempdir(), "terminals_%d_%d.txt" % (os.getpid(), next(COUNTER)))
    with open(path, "w", encoding="utf-8") as stream:
        for line in lines:
            stream.write("\t".join(str(x) for x in line) + "\n")
    return path


def quietly(prefix, fn, *args, **kw):
    out = io.StringIO()
    allowed = kw.pop("_allowed", ())
    with contextlib.redirect_stdout(out), contextlib.redirect_stderr(io.StringIO()):
        res = call(prefix, fn, *args, _allowed=allowed, **kw)
    return res, out.getvalue()


# ----------------------------------------------------------------------------------------------- checks

def check_punct_delete(case):
    root = case["tree"]["root"]
    tree = M.build(case["tree"], T)
    params = {"quiet": True} if case.get("quiet") else {}
    result, out = quietly("C11/punctuation_delete", transform.punctuation_delete, tree, **params)
    toks = M.toks(root)
    drop = set(t["n"] for t in toks if t["w"] in PUNCT)
    if len(drop) == len(toks):
        drop = set()
    expected = prune(root, drop)
    if result is not tree:
        raise violation("C11/punctuation_delete/returned-node-not-root", "returned %r instead of the root" % (getattr(result, "data", {}).get("label"),))
    compare("C11/punctuation_delete", result, expected, "punctuation_delete")
    lines = [l for l in out.split("\n") if l]
    want = ["%s\t%s\t%s\t%s" % (case["tree"]["sid"], t["n"], t["w"], t["p"]) for t in toks if t["n"] in drop]
    if lines != want:
        raise violation("C11/punctuation_delete/report", "printed %r, deleted tokens are %r" % (lines, want))
    return len(drop), len(toks) - len(drop)


def check_delete_terminal(case):
    root = case["tree"]["root"]
    index = {}
    tree = M.build(case["tree"], T, index)
    toks = M.toks(root)
    target = toks[case["which"] % len(toks)]
    start = index[id(M.constituents(root)[case["from"] % len(M.constituents(root))])]
    ret, _ = quietly("C11/delete_terminal", T.delete_terminal, start, index[id(target)])
    if len(toks) == 1:
        return 0, 0
    expected = prune(root, {target["n"]})
    compare("C11/delete_terminal", tree, expected, "delete_terminal(token %d)" % target["n"])
    return 1, len(toks) - 1


def reference_insert(sentence, requests):
    out = list(sentence)
    inserted = []
    for idx in sorted(requests):
        if idx == 0 or idx > len(out) + 1:
            continue
        out.insert(idx - 1, requests[idx])
        inserted.append(idx)
    return out, inserted


def check_insert(case):
    root = case["tree"]["root"]
    sid = case["tree"]["sid"]
    lines = [(l[0], l[1], l[2], l[3]) for l in case["lines"]]
    path = terminal_file(lines)
    params = {"terminalfile": path}
    if case.get("quiet"):
        params["quiet"] = True
    tree = M.build(case["tree"], T)
    seen = set()
    duplicate = False
    for l in lines:
        if (l[0], l[1]) in seen:
            duplicate = True
        seen.add((l[0], l[1]))
    try:
        try:
            result, _ = quietly("C11/insert_terminals", transform.insert_terminals, tree, _allowed=(ValueError,), **params)
        except ValueError:
            if duplicate:
                return 0, 0
            raise violation("C11/insert_terminals/unexpected-ValueError", "terminal file without duplicate index rejected")
        if duplicate:
            raise violation("C11/insert_terminals/duplicate-index-accepted", "terminal file %r" % (lines,))
    finally:
        os.remove(path)
    requests = {l[1]: (l[2], l[3]) for l in lines if l[0] == sid}
    sentence = [(t["w"], t["p"]) for t in M.toks(root)]
    exp_sentence, inserted = reference_insert(sentence, requests)
    if result is not tree:
        raise violation("C11/insert_terminals/returned-node-not-root", "")
    got = snap("C11/insert_terminals", result)
    got_sentence = [(t["w"], t["p"]) for t in M.toks(got)]
    if got_sentence != exp_sentence:
        raise violation("C11/insert_terminals/sentence", "requests %r on %r give %r, expected %r" % (requests, sentence, got_sentence, exp_sentence))
    # inserted tokens hang under the root, everything else keeps its attachment
    expected = M.copy(root)
    shift = []
    for idx in inserted:
        for tok in M.toks(expected):
            if tok["n"] >= idx:
                tok["n"] += 1
        expected["c"].append({"w": requests[idx][0], "p": requests[idx][1], "n": idx, "e": "--", "lem": "--", "m": "--"})
    if M.canon(got, **FIELDS) != M.canon(expected, **FIELDS):
        raise violation("C11/insert_terminals/structure", "inserted tokens must hang under the root with default fields, all other attachments unchanged")
    return len(inserted), len(sentence)


def check_substitute(case):
    root = case["tree"]["root"]
    sid = case["tree"]["sid"]
    lines = [tuple(x for x in l if x is not None) for l in case["lines"]]
    path = terminal_file(lines)
    params = {"terminalfile": path}
    if case.get("quiet"):
        params["quiet"] = True
    tree = M.build(case["tree"], T)
    seen = set()
    duplicate = False
    for l in lines:
        if (l[0], l[1]) in seen:
            duplicate = True
        seen.add((l[0], l[1]))
    try:
        try:
            result, _ = quietly("C11/substitute_terminals", transform.substitute_terminals, tree, _allowed=(ValueError,), **params)
        except ValueError:
            if duplicate:
                return 0, 0
            raise violation("C11/substitute_terminals/unexpected-ValueError", "terminal file without duplicate index rejected")
        if duplicate:
            raise violation("C11/substitute_terminals/duplicate-index-accepted", "terminal file %r" % (lines,))
    finally:
        os.remove(path)
    expected = M.copy(root)
    toks = M.toks(expected)
    hit = 0
    for l in lines:
        if l[0] != sid:
            continue
        if 1 <= l[1] <= len(toks):
            toks[l[1] - 1]["w"] = l[2]
            if len(l) > 3:
                toks[l[1] - 1]["p"] = l[3]
            hit += 1
    if result is not tree:
        raise violation("C11/substitute_terminals/returned-node-not-root", "")
    compare("C11/substitute_terminals", result, expected, "substitute %r" % (lines,))
    return hit, len(toks) - hit


TRACE_WORDS = ["*T*", "*", "*U*", "0", "*EXP*", "*ICH*", "*?*", "*RNR*"]


def check_traces(case):
    root = case["tree"]["root"]
    params = {}
    keep = case.get("keep") or []
    if keep:
        params["keep"] = ",".join(keep)
    for flag in ("keepall", "keepcoindex"):
        if case.get(flag):
            params[flag] = True
    if case.get("slash") is not None:
        params["slash"] = case["slash"]
    tree = M.build(case["tree"], T)
    try:
        result, _ = quietly("C11/ptb_delete_traces", transform.ptb_delete_traces, tree, **params)
    except Violation:
        if "slash" in params:
            return None
        raise
    # expected sentence
    drop = set()
    expected = M.copy(root)
    for tok in M.toks(expected):
        if tok["p"] != "-NONE-":
            continue
        bare, co = tok["trace"], tok["co"]
        if case.get("keepall") or bare in keep:
            tok["p"] = bare + ("-" + co if (co and case.get("keepcoindex")) else "")
            tok["w"] = "-NONE-"
        else:
            drop.add(tok["n"])
    for node in M.constituents(expected):
        parts = node["parts"]
        lab = parts["cat"] + (("-" + parts["gf"]) if parts["gf"] else "")
        if parts["co"] and case.get("keepcoindex"):
            lab += "-" + parts["co"]
        node["l"] = lab
    expected = prune(expected, drop)
    if result is not tree:
        raise violation("C11/ptb_delete_traces/returned-node-not-root", "")
    got = snap("C11/ptb_delete_traces", result)
    got_sentence = [(t["w"], t["p"]) for t in M.toks(got)]
    exp_sentence = [(t["w"], t["p"]) for t in M.toks(expected)]
    if "slash" in params:
        # the slash annotation documents that traces without filler are deleted: only ordinary tokens are pinned down,
        # and whatever trace is left must be one that was to be kept
        plain = lambda sent: [x for x in sent if x[0] != "-NONE-"]
        if plain(got_sentence) != plain(exp_sentence):
            raise violation("C11/ptb_delete_traces/sentence", "params %r: ordinary tokens %r, expected %r" % (params, plain(got_sentence), plain(exp_sentence)))
        it = iter(exp_sentence)
        if not all(any(x == y for y in it) for x in got_sentence):
            raise violation("C11/ptb_delete_traces/sentence", "params %r: sentence %r is not a subsequence of %r" % (params, got_sentence, exp_sentence))
    elif got_sentence != exp_sentence:
        kind = "/kept-trace-deleted" if len(got_sentence) < len(exp_sentence) else "/sentence"
        raise violation("C11/ptb_delete_traces" + kind, "params %r: sentence %r, expected %r" % (params, got_sentence, exp_sentence))
    if "slash" not in params:
        if M.canon(got, **FIELDS) != M.canon(expected, **FIELDS):
            labels = sorted(n["l"] for n in M.constituents(got))
            raise violation("C11/ptb_delete_traces/structure-or-labels", "params %r: labels %r, expected %r" % (params, labels, sorted(n["l"] for n in M.constituents(expected))))
    else:
        for node in M.constituents(got):
            base = node["l"].split("/")[0]
            if re.search(r"=[0-9]+", base) or (not case.get("keepcoindex") and re.search(r"-[0-9]+\Z", base)):
                raise violation("C11/ptb_delete_traces/index-left", "label %r" % node["l"])
    ntr = sum(1 for t in M.toks(root) if t["p"] == "-NONE-")
    return ntr, len(M.toks(root)) - ntr


def check_filter(case):
    root = case["tree"]["root"]
    tree = M.build(case["tree"], T)
    n = len(M.toks(root))
    op, val = case["op"], case["value"]
    result, _ = quietly("C11/filter_by_length", transform.filter_by_length, tree, filteroperator=op, filtervalue=val)
    gone = (op == "lt" and n < val) or (op == "gt" and n > val) or (op == "eq" and n == val)
    if gone:
        if result is not None:
            raise violation("C11/filter_by_length/not-filtered", "%d tokens, %s %d: tree kept" % (n, op, val))
        return 1, 0
    if result is not tree:
        raise violation("C11/filter_by_length/filtered-or-other-node", "%d tokens, %s %d: tree dropped or other node returned" % (n, op, val))
    compare("C11/filter_by_length", result, root, "filter")
    return 0, 1


# ----------------------------------------------------------------------------------------------- generators

def punct_words():
    return st.one_of(st.sampled_from(sorted(PUNCT)), st.sampled_from([",", ".", "(", '"']), st.sampled_from(["a", "b", "c", "Haus"]),
                     st.sampled_from(["a", "b"]))


def base_tree(max_tokens, words):
    return S.tree_model(max_tokens=max_tokens, disc=0.4, words=words, max_arity=4, labels=st.sampled_from(["S", "NP", "VP", "X"]),
                        pos=st.sampled_from(["NN", "VB", "$,", "ART"]), sid=st.integers(1, 30))


@st.composite
def file_lines(draw, sid, n, with_pos_optional):
    lines = []
    for _ in range(draw(st.integers(0, 5))):
        which = draw(st.integers(0, 9))
        idx = draw(st.integers(1, n + 1)) if which < 6 else draw(st.sampled_from([0, n + 2, n + 5, 100]))
        line_sid = sid if draw(st.integers(0, 5)) else sid + draw(st.integers(1, 3))
        word = draw(st.sampled_from(["NEW", "neu", "X1", ",", "ä"]))
        pos = draw(st.sampled_from(["PX", "NN", "$."]))
        if with_pos_optional and draw(st.booleans()):
            pos = None
        lines.append([line_sid, idx, word, pos])
    if lines and draw(st.integers(0, 9)) == 0:
        lines.append(list(lines[draw(st.integers(0, len(lines) - 1))]))
    return lines


@st.composite
def trace_tree(draw, max_tokens):
    case = draw(S.tree_model(max_tokens=max_tokens, disc=0.0, words=st.sampled_from(["a", "b", "c", "did"]), max_arity=4,
                             labels=st.sampled_from(["S", "NP", "VP", "SBAR", "WHNP"]), pos=st.sampled_from(["NN", "VB", "IN"]), sid=st.integers(1, 30)))
    toks = M.toks(case["root"])
    ordinary = draw(st.integers(0, len(toks) - 1))
    for i, tok in enumerate(toks):
        if i != ordinary and draw(st.integers(0, 2)) == 0:
            bare = draw(st.sampled_from(TRACE_WORDS))
            co = draw(st.sampled_from(["", "1", "2", "12"]))
            gap = draw(st.sampled_from(["", "", "", "3"]))
            tok["p"] = "-NONE-"
            tok["trace"], tok["co"] = bare, co
            tok["w"] = bare + (("=" + gap) if gap else "") + (("-" + co) if co else "")
    for node in M.constituents(case["root"]):
        cat = node["l"]
        gf = draw(st.sampled_from(["", "", "SBJ", "TMP"]))
        gap = draw(st.sampled_from(["", "", "", "1", "2"]))
        co = draw(st.sampled_from(["", "", "1", "2", "12"]))
        node["parts"] = {"cat": cat, "gf": gf, "gap": gap, "co": co}
        node["l"] = cat + (("-" + gf) if gf else "") + (("=" + gap) if gap else "") + (("-" + co) if co else "")
    return case


def gen(ctx):
    quick = ctx.tier == "quick"
    n = 8 if quick else 12

    @st.composite
    def cases(draw):
        kind = draw(st.sampled_from(["punct", "delete", "insert", "substitute", "traces", "traces", "filter"]))
        if kind == "punct":
            return {"kind": kind, "tree": draw(base_tree(n, punct_words())), "quiet": draw(st.booleans())}
        if kind == "delete":
            return {"kind": kind, "tree": draw(base_tree(n, punct_words())), "which": draw(st.integers(0, 20)), "from": draw(st.integers(0, 20))}
        if kind in ("insert", "substitute"):
            tree = draw(base_tree(n, st.sampled_from(["a", "b", "c"])))
            lines = draw(file_lines(tree["sid"], len(M.toks(tree["root"])), kind == "substitute"))
            return {"kind": kind, "tree": tree, "lines": lines, "quiet": draw(st.booleans())}
        if kind == "traces":
            tree = draw(trace_tree(n))
            keep = draw(st.lists(st.sampled_from(TRACE_WORDS), max_size=3, unique=True))
            slash = draw(st.sampled_from([None, None, None, True, "NP,WHNP"]))
            return {"kind": kind, "tree": tree, "keep": keep, "keepall": draw(st.integers(0, 4)) == 0, "keepcoindex": draw(st.booleans()), "slash": slash}
        return {"kind": kind, "tree": draw(base_tree(n, punct_words())), "op": draw(st.sampled_from(["lt", "gt", "eq"])), "value": draw(st.integers(0, n + 1))}

    def body(case):
        res = check(case)
        if res is None:
            ctx.rejected += 1
            ctx.count(key=case, nontrivial=False, classes=[case["kind"] + ":discarded-slash-exception"])
            return
        affected, unaffected = res
        classes = [case["kind"] + (":effective" if affected else ":no-effect")]
        if case["kind"] == "traces":
            classes.append("traces:" + "+".join(k for k in ("keepall", "keepcoindex") if case.get(k)) + ("+keep" if case["keep"] else "") + ("+slash" if case["slash"] else ""))
        if case.get("quiet"):
            classes.append(case["kind"] + ":quiet")
        ctx.count(key=case, nontrivial=affected > 0 and unaffected > 0, classes=classes)
        if affected > 1 and unaffected > 0:
            ctx.sample(case, cap=4)
    ctx.hyp(cases(), body, max_examples=1500 if quick else 8000)


def check(case):
    return {"punct": check_punct_delete, "delete": check_delete_terminal, "insert": check_insert, "substitute": check_substitute,
            "traces": check_traces, "filter": check_filter}[case["kind"]](case)


UNITS = [Unit("edits", gen, check, shards=(4, 16))]


# ----------------------------------------------------------------------------------------------- sequences of edits on one tree

def check_sequence(case):
    """Several token-editing operations applied one after the other to the SAME tree object; after every step the tree must
    equal the reference edit applied to the model of the previous step."""
    current = M.copy(case["tree"]["root"])
    sid = case["tree"]["sid"]
    tree = M.build(case["tree"], T)
    affected = 0
    for step, op in enumerate(case["ops"]):
        kind = op["kind"]
        prefix = "C11/sequence/" + kind
        toks = M.toks(current)
        if kind == "punct":
            drop = set(t["n"] for t in toks if t["w"] in PUNCT)
            if len(drop) == len(toks):
                drop = set()
            result, _ = quietly(prefix, transform.punctuation_delete, tree, quiet=True)
            expected = prune(current, drop)
            affected += len(drop)
        elif kind == "delete":
            if len(toks) < 2:
                continue
            target = toks[op["which"] % len(toks)]
            leaf = [n for n in M.snapshot(tree)[1].values() if not n.children and n.data.get("num") == target["n"]][0]
            quietly(prefix, T.delete_terminal, tree, leaf)
            result = tree
            expected = prune(current, {target["n"]})
            affected += 1
        elif kind == "insert":
            lines = [(sid, idx, "INS%d" % step, "PX") for idx in sorted(set(op["indices"]))]
            path = terminal_file(lines)
            try:
                result, _ = quietly(prefix, transform.insert_terminals, tree, terminalfile=path, quiet=True)
            finally:
                os.remove(path)
            requests = {l[1]: (l[2], l[3]) for l in lines}
            _sent, inserted = reference_insert([(t["w"], t["p"]) for t in toks], requests)
            expected = M.copy(current)
            for idx in inserted:
                for tok in M.toks(expected):
                    if tok["n"] >= idx:
                        tok["n"] += 1
                expected["c"].append({"w": requests[idx][0], "p": requests[idx][1], "n": idx, "e": "--", "lem": "--", "m": "--"})
            affected += len(inserted)
        elif kind == "substitute":
            lines = [(sid, idx, "SUB%d" % step) for idx in sorted(set(op["indices"]))]
            path = terminal_file(lines)
            try:
                result, _ = quietly(prefix, transform.substitute_terminals, tree, terminalfile=path, quiet=True)
            finally:
                os.remove(path)
            expected = M.copy(current)
            etoks = M.toks(expected)
            for l in lines:
                if 1 <= l[1] <= len(etoks):
                    etoks[l[1] - 1]["w"] = l[2]
                    affected += 1
        else:
            raise AssertionError(kind)
        if result is not tree:
            raise violation(prefix + "/returned-node-not-root", "step %d" % (step + 1))
        compare(prefix, tree, expected, "step %d (%s) after %r" % (step + 1, kind, [o["kind"] for o in case["ops"][:step]]))
        current = expected
    return affected, len(M.toks(current))


def gen_sequences(ctx):
    quick = ctx.tier == "quick"
    op = st.one_of(st.fixed_dictionaries({"kind": st.just("punct")}),
                   st.fixed_dictionaries({"kind": st.just("delete"), "which": st.integers(0, 20)}),
                   st.fixed_dictionaries({"kind": st.just("insert"), "indices": st.lists(st.integers(0, 12), min_size=1, max_size=3)}),
                   st.fixed_dictionaries({"kind": st.just("substitute"), "indices": st.lists(st.integers(0, 12), min_size=1, max_size=3)}))
    strategy = st.fixed_dictionaries({"tree": base_tree(8 if quick else 12, punct_words()), "ops": st.lists(op, min_size=2, max_size=5)})

    def body(case):
        affected, left = check_sequence(case)
        ctx.count(key=case, nontrivial=affected > 0 and left > 0, classes=["sequence:ops=%d" % len(case["ops"])] + ["sequence:" + k for k in set(o["kind"] for o in case["ops"])])
        if affected >= 3:
            ctx.sample({"ops": case["ops"], "tree": case["tree"]["root"]}, cap=1)
    ctx.hyp(strategy, body, max_examples=800 if quick else 5000)


UNITS.append(Unit("sequences", gen_sequences, check_sequence, shards=(2, 8)))


from vlib import clidiff
UNITS.append(clidiff.unit("C11", strategy=clidiff.cases_edits))
