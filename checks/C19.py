"""C19 - tree navigation API agrees with a set-based model of the tree.

Domain: exhaustively all hierarchies over <= 4 tokens with every unary decoration and all over 5 tokens with
<= 1 unary node, child lists stored in rotated order; random trees up to 12 tokens.  Every node / pair of nodes.
"""
from hypothesis import strategies as st

from vlib import model as M
from vlib import strategies as S
from vlib import shapes
from vlib.runner import Unit, violation, call, Violation
from vlib.repo import T, treeoutput

RULE = ("enum: every series-reduced hierarchy over n<=4 tokens x every subset of nodes given a unary parent, and over "
        "n=5 (n<=6 thorough) with at most one unary node, child lists stored rotated by 0/1/2; random: Hypothesis trees "
        "(<=12/16 tokens, discontinuous, shuffled child lists). For every node: children, terminals, siblings, dominance; "
        "for every ordered pair: lca; pre/postorder, levels and export numbering per tree, all against the set model. "
        "Non-trivial = tree with >= 3 constituents; distinct by construction (enum) / digest (random).")
ASSUMPTIONS = ["trees built through trees.Tree with child lists in arbitrary stored order",
               "preorder/postorder are only required to visit every node once with ancestors before/after descendants (as stated), not a particular sibling order"]


def check(case):
    index = {}
    tree = M.build(case, T, index)
    root = M.copy(case["root"]) if case.get("edit") is not None else case["root"]
    if root is not case["root"]:
        # rebuild the index for the copied model (same preorder)
        index = {id(n): index[id(o)] for n, o in zip(M.preorder(root), M.preorder(case["root"]))}
    k = verify(tree, root, index)
    if case.get("edit") is not None:
        # the same tree object after a raw structural change (a child moved under the root, through .children/.parent
        # directly): the navigation functions must describe the tree as it is now
        cands = [(par, ch) for par in M.preorder(root) if not M.is_tok(par) and par is not root and len(par["c"]) >= 2 for ch in par["c"]]
        if cands:
            par, child = cands[case["edit"] % len(cands)]
            par["c"] = [c for c in par["c"] if c is not child]
            root["c"].append(child)
            rpar, rchild, rroot = index[id(par)], index[id(child)], index[id(root)]
            rpar.children.remove(rchild)
            rroot.children.append(rchild)
            rchild.parent = rroot
            verify(tree, root, index)
    return k


def verify(tree, root, index):
    nodes = list(M.preorder(root))
    repo_of = {id(n): index[id(n)] for n in nodes}
    name = {id(v): k for k, v in repo_of.items()}  # id(repo node) -> id(model node)
    parent = {}
    for node in nodes:
        for child in node.get("c", ()):
            parent[id(child)] = node

    def ident(repo_node):
        return name.get(id(repo_node))

    def describe(node):
        return "%s%s" % (node.get("l", node.get("w")), M.nums(node))

    def anc(node):
        out = [node]
        while id(out[-1]) in parent:
            out.append(parent[id(out[-1])])
        return out

    def sibling_checks(node):
        rnode = repo_of[id(node)]
        sibs = M.kids(parent[id(node)]) if id(node) in parent else [node]
        pos = [i for i, x in enumerate(sibs) if x is node][0]
        exp_r = id(sibs[pos + 1]) if pos + 1 < len(sibs) else None
        exp_l = id(sibs[pos - 1]) if pos > 0 else None
        got_r = call("C19/right_sibling", T.right_sibling, rnode)
        got_l = call("C19/left_sibling", T.left_sibling, rnode)
        if (ident(got_r) if got_r is not None else None) != exp_r:
            raise violation("C19/right_sibling", "right_sibling(%s)" % describe(node))
        if (ident(got_l) if got_l is not None else None) != exp_l:
            raise violation("C19/left_sibling", "left_sibling(%s)" % describe(node))

    # siblings first, on the untouched tree and bottom-up: an answer must not depend on whether some other function
    # happened to visit the parent before
    for node in reversed(nodes):
        sibling_checks(node)
    for node in nodes:
        rnode = repo_of[id(node)]
        # children in order of leftmost token
        got = [ident(c) for c in call("C19/children", T.children, rnode)]
        exp = [id(c) for c in M.kids(node)] if not M.is_tok(node) else []
        if got != exp:
            raise violation("C19/children/order", "children(%s) not in order of leftmost token" % describe(node))
        if call("C19/has_children", T.has_children, rnode) != (not M.is_tok(node)):
            raise violation("C19/has_children", describe(node))
        # terminals in token order
        got = [ident(t) for t in call("C19/terminals", T.terminals, rnode)]
        if got != [id(t) for t in M.toks(node)]:
            raise violation("C19/terminals/order", "terminals(%s) wrong" % describe(node))
        got = sorted(ident(t) for t in call("C19/unordered_terminals", T.unordered_terminals, rnode))
        if got != sorted(id(t) for t in M.toks(node)):
            raise violation("C19/unordered_terminals", describe(node))
        # siblings
        sibs = M.kids(parent[id(node)]) if id(node) in parent else [node]
        pos = [i for i, s in enumerate(sibs) if s is node][0]
        exp_r = id(sibs[pos + 1]) if pos + 1 < len(sibs) else None
        exp_l = id(sibs[pos - 1]) if pos > 0 else None
        got_r = call("C19/right_sibling", T.right_sibling, rnode)
        got_l = call("C19/left_sibling", T.left_sibling, rnode)
        if (ident(got_r) if got_r is not None else None) != exp_r:
            raise violation("C19/right_sibling", "right_sibling(%s)" % describe(node))
        if (ident(got_l) if got_l is not None else None) != exp_l:
            raise violation("C19/left_sibling", "left_sibling(%s)" % describe(node))
        # dominance path from the node to the root
        got = [ident(d) for d in call("C19/dominance", lambda x: list(T.dominance(x)), rnode)]
        if got != [id(a) for a in anc(node)]:
            raise violation("C19/dominance", "dominance(%s)" % describe(node))
        # terminal blocks
        got = [[t.data["num"] for t in block] for block in call("C19/terminal_blocks", T.terminal_blocks, rnode)]
        if got != M.blocks(M.nums(node)):
            raise violation("C19/terminal_blocks", "terminal_blocks(%s) = %r" % (describe(node), got))
    # lca for every ordered pair
    for a in nodes:
        anc_a = anc(a)
        for b in nodes:
            anc_b = anc(b)
            if any(x is b for x in anc_a) or any(x is a for x in anc_b):
                exp = None
            else:
                ids_b = set(id(x) for x in anc_b)
                exp = [id(x) for x in anc_a if id(x) in ids_b][0]
            got = call("C19/lca", T.lca, repo_of[id(a)], repo_of[id(b)])
            if (ident(got) if got is not None else None) != exp:
                raise violation("C19/lca", "lca(%s, %s) = %s" % (describe(a), describe(b), None if got is None else got.data.get("label")))
    # traversals
    for fname, before in (("preorder", True), ("postorder", False)):
        seq = [ident(x) for x in call("C19/" + fname, lambda t: list(getattr(T, fname)(t)), tree)]
        if sorted(seq, key=str) != sorted((id(n) for n in nodes), key=str) or len(set(seq)) != len(seq):
            raise violation("C19/%s/not-every-node-once" % fname, "%d visited, %d nodes" % (len(seq), len(nodes)))
        where = {nid: i for i, nid in enumerate(seq)}
        for node in nodes:
            if id(node) in parent:
                p = where[id(parent[id(node)])]
                c = where[id(node)]
                if (p > c) if before else (p < c):
                    raise violation("C19/%s/ancestor-order" % fname, describe(node))
    # levels: longest downward path to a token
    height = {}
    for node in reversed(nodes):
        height[id(node)] = 0 if M.is_tok(node) else 1 + max(height[id(c)] for c in node["c"])
    levels, reverse = call("C19/levels", T.levels, tree)
    got = {ident(k): v for k, v in reverse.items()}
    exp = {id(n): height[id(n)] for n in nodes if not M.is_tok(n)}
    if got != exp:
        raise violation("C19/levels", "levels differ from longest downward path: %r" % sorted(got.values()))
    got_lv = {lv: sorted(ident(x) for x in members) for lv, members in levels.items()}
    exp_lv = {}
    for nid, lv in exp.items():
        exp_lv.setdefault(lv, []).append(nid)
    if got_lv != {lv: sorted(v) for lv, v in exp_lv.items()}:
        raise violation("C19/levels/inconsistent", "levels and reverse_levels disagree")
    # export numbering
    call("C19/compute_export_numbering", treeoutput.compute_export_numbering, tree)
    cons = [n for n in nodes if not M.is_tok(n)]
    number = {id(n): repo_of[id(n)].data.get("num") for n in cons}
    if number[id(root)] != 0:
        raise violation("C19/numbering/root-not-0", str(number[id(root)]))
    others = sorted(number[id(n)] for n in cons if n is not root)
    if others != list(range(500, 500 + len(others))):
        raise violation("C19/numbering/not-bijection", "numbers %r" % others)
    for node in cons:
        if node is root:
            continue
        par = parent[id(node)]
        if par is not root and number[id(par)] <= number[id(node)]:
            raise violation("C19/numbering/parent-not-above", "%s=%d under %s=%d" % (describe(node), number[id(node)], describe(par), number[id(par)]))
    for a in cons:
        for b in cons:
            if a is root or b is root or a is b:
                continue
            if height[id(a)] == height[id(b)] and M.first(a) < M.first(b) and number[id(a)] > number[id(b)]:
                raise violation("C19/numbering/not-left-to-right", "%s %s" % (describe(a), describe(b)))
    for tok in M.toks(root):
        if repo_of[id(tok)].data.get("num") != tok["n"]:
            raise violation("C19/numbering/token-renumbered", describe(tok))
    return len(cons)


def gen_enum(ctx):
    quick = ctx.tier == "quick"

    def cases():
        i = 0
        for desc, case in shapes.all_models(4, "all", rotations=(0, 1, 2)):
            i += 1
            if i % ctx.nshards == ctx.shard:
                yield desc, case
        for desc, case in shapes.all_models(5 if quick else 6, "single", rotations=(0, 1)):
            if desc["n"] < 5:
                continue
            i += 1
            if i % ctx.nshards == ctx.shard:
                yield desc, case

    complete = True
    for desc, case in cases():
        if ctx.time_up():
            ctx.inconclusive = True
            complete = False
            break
        try:
            ncons = []
            ctx.run_case(lambda c: ncons.append(check(c)), case)
        except Violation as vio:
            ctx.record(vio)
            continue
        k = ncons[0] if ncons else 0
        ctx.count(nontrivial=k >= 3, by_construction=True, classes=["tokens=%d" % desc["n"], "constituents>=3" if k >= 3 else "constituents<3"])
        if k >= 4 and desc["mask"] and desc["rot"]:
            ctx.sample(desc, cap=2)
    if complete:
        ctx.exhaustive = "all hierarchies n<=4 x all unary decorations x 3 rotations; n=5%s with <=1 unary node x 2 rotations" % ("" if quick else ",6")


def gen_random(ctx):
    quick = ctx.tier == "quick"

    def body(case):
        k = check(case)
        ctx.count(key=case["root"], nontrivial=k >= 3, classes=["random:gapdeg=%d" % min(3, M.tree_gapdeg(case["root"]))])
        if k >= 5:
            ctx.sample(case["root"], cap=1)
    strategy = st.builds(lambda tree, edit: dict(tree, edit=edit), S.tree_model(max_tokens=12 if quick else 16, disc=0.6, labels=st.sampled_from(["S", "NP", "VP", "PP", "AP", "VROOT"])), st.one_of(st.none(), st.integers(0, 50)))
    ctx.hyp(strategy, body, max_examples=600 if quick else 4000)


def gen_long(ctx):
    """sentences with more than a hundred tokens (three-digit token numbers, leftmost tokens more than 100 apart)"""
    from vlib import shapes
    for name, case in shapes.long_sentences():
        try:
            ctx.run_case(check, dict(case, edit=None))
        except Violation as vio:
            ctx.record(vio)
        ctx.count(key=name, nontrivial=True, classes=["long:" + name])
        ctx.sample({"shape": name, "tokens": len(M.toks(case["root"]))}, cap=3)


UNITS = [Unit("enum", gen_enum, check, shards=(6, 16)),
         Unit("random", gen_random, check, shards=(2, 8)),
         Unit("long_sentences", gen_long, check, shards=(1, 1))]
