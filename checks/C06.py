"""C06 - grammar extraction is faithful to the treebank."""
from collections import Counter
from hypothesis import strategies as st

from vlib import model as M
from vlib import strategies as S
from vlib import lcfrs
from vlib.runner import Unit, violation, call, Violation
from vlib.repo import T, grammar, grammaranalysis

RULE = ("Hypothesis treebank pools: 1..6 trees drawn with replacement from a pool of 1..3 random trees (<=8/12 tokens, discontinuous, "
        "unary nodes, repeated sibling labels from a 4-letter alphabet) so that counts exceed 1. grammar.extract over the treebank must "
        "equal the reference multiset {(rule, linearization, vertical context): count} and lexicon computed from token sets; independently, "
        "per node: instantiating the extracted linearization with the children's token blocks reproduces the node's blocks using every "
        "child block once and in order; fan_out equals block counts; per-label rule sums = node counts; lexicon = token counts; "
        "is_contextfree iff every tree continuous. Non-trivial = some count > 1 or some fan-out > 1; distinct by digest of the treebank.")
ASSUMPTIONS = ["reference extractor in vlib/lcfrs.py works on token sets of the model only"]


def treebank(max_tokens, max_trees=6, words=("a", "b", "c", "Haus"), labels=("S", "NP", "VP", "X"), pos=("NN", "VB", "ART")):
    tree = S.tree_model(max_tokens=max_tokens, disc=0.6, labels=st.sampled_from(list(labels)),
                        pos=st.sampled_from(list(pos)), words=st.sampled_from(list(words)), max_arity=4)

    @st.composite
    def build(draw):
        pool = draw(st.lists(tree, min_size=1, max_size=3))
        # variants: the same tree with two tokens exchanging their positions - same labels and rules in the untouched
        # parts, but ancestors get other fan-outs (same production under contexts that differ only in fan-out)
        for _ in range(draw(st.integers(0, 2))):
            base = M.copy(pool[draw(st.integers(0, len(pool) - 1))]["root"])
            toks = M.toks(base)
            if len(toks) >= 3:
                i = draw(st.integers(0, len(toks) - 1))
                j = draw(st.integers(0, len(toks) - 1))
                toks[i]["n"], toks[j]["n"] = toks[j]["n"], toks[i]["n"]
                pool.append({"sid": 1, "root": base})
        if draw(st.integers(0, 7)) == 0:
            # a flat constituent with 9..12 children (wide rules), possibly one of them outside its span
            n = draw(st.integers(9, 12))
            toks = [{"w": draw(st.sampled_from(["a", "b", "c"])), "p": draw(st.sampled_from(["NN", "VB", "ART"])), "n": i + 1, "e": "--", "lem": "--", "m": "--"} for i in range(n + 1)]
            if draw(st.booleans()):
                k = draw(st.integers(1, n - 2))
                toks[k]["n"], toks[n]["n"] = toks[n]["n"], toks[k]["n"]
            flat = {"l": draw(st.sampled_from(["NP", "X"])), "e": "--", "lem": "--", "m": "--", "c": toks[:n]}
            pool.append({"sid": 1, "root": {"l": "VROOT", "e": "--", "lem": "--", "m": "--", "c": [flat, toks[n]]}})
        if draw(st.integers(0, 9)) == 0:
            # a 'comb': two constituents covering the odd and the even tokens (fan-outs 10 and more: two-digit fan-outs)
            n = draw(st.integers(19, 23))
            toks = [{"w": draw(st.sampled_from(["a", "b", "c"])), "p": draw(st.sampled_from(["NN", "VB", "ART"])), "n": i + 1, "e": "--", "lem": "--", "m": "--"} for i in range(n)]
            odd = {"l": "X", "e": "--", "lem": "--", "m": "--", "c": toks[0::2]}
            even = {"l": "NP", "e": "--", "lem": "--", "m": "--", "c": toks[1::2]}
            pool.append({"sid": 1, "root": {"l": "VROOT", "e": "--", "lem": "--", "m": "--", "c": [odd, even]}})
        picks = draw(st.lists(st.integers(0, len(pool) - 1), min_size=1, max_size=max_trees))
        return [pool[i] for i in picks]
    return build()


def check(cases):
    gram, lex = {}, {}
    for case in cases:
        ret = call("C06/extract", grammar.extract, M.build(case, T), gram, lex)
        if ret is not gram:
            raise violation("C06/extract/return-value", "extract does not return the grammar it was given")
    exp_gram, exp_lex = lcfrs.extract_treebank(cases)
    got_lex = {w: dict(c) for w, c in lex.items()}
    if got_lex != {w: dict(c) for w, c in exp_lex.items()}:
        raise violation("C06/lexicon", "lexicon %r, token counts %r" % (got_lex, {w: dict(c) for w, c in exp_lex.items()}))
    # structure of the result
    for func in gram:
        for lin in gram[func]:
            bad = lcfrs.well_formed_rule(func, lin)
            if bad:
                raise violation("C06/rule-not-well-formed", "%r %r: %s" % (func, lin, bad))
    if gram != exp_gram:
        gk = set((f, l, v) for f in gram for l in gram[f] for v in gram[f][l])
        ek = set((f, l, v) for f in exp_gram for l in exp_gram[f] for v in exp_gram[f][l])
        if gk != ek:
            only_g = sorted(gk - ek, key=repr)[:2]
            only_e = sorted(ek - gk, key=repr)[:2]
            kind = "C06/vertical-context" if set(x[:2] for x in gk) == set(x[:2] for x in ek) else "C06/rules-differ"
            raise violation(kind, "only extracted: %r; only in the treebank: %r" % (only_g, only_e))
        diff = [(k, gram[k[0]][k[1]][k[2]], exp_gram[k[0]][k[1]][k[2]]) for k in sorted(gk, key=repr) if gram[k[0]][k[1]][k[2]] != exp_gram[k[0]][k[1]][k[2]]]
        raise violation("C06/counts", "rule, extracted count, occurrences: %r" % (diff[:2],))
    # per node, directly from the statement
    nodes_per_label = Counter()
    max_fan = 1
    for case in cases:
        single, _ = {}, {}
        tree = M.build(case, T)
        call("C06/extract", grammar.extract, tree, single, {})
        for node in M.constituents(case["root"]):
            nodes_per_label[node["l"]] += 1
            func, lin = lcfrs.extract_rule(node)
            if func not in single or lin not in single[func]:
                raise violation("C06/node-without-rule", "node %s%r has no rule %r %r" % (node["l"], M.nums(node), func, lin))
            children = M.kids(node)
            child_blocks = [M.blocks(M.nums(c)) for c in children]
            out, uses = lcfrs.instantiate(lin, child_blocks)
            if out != M.blocks(M.nums(node)):
                raise violation("C06/instantiation", "rule %r %r instantiates to %r, node covers %r" % (func, lin, out, M.blocks(M.nums(node))))
            if sorted(uses) != sorted((i, j) for i, bl in enumerate(child_blocks) for j in range(len(bl))):
                raise violation("C06/instantiation-uses", "child blocks used %r" % (uses,))
            fan = call("C06/fan_out", grammaranalysis.fan_out, lin)
            exp_fan = [len(M.blocks(M.nums(node)))] + [len(bl) for bl in child_blocks]
            if list(fan) != exp_fan:
                raise violation("C06/fan_out", "fan_out(%r) = %r, blocks %r" % (lin, fan, exp_fan))
            max_fan = max(max_fan, exp_fan[0])
    sums = Counter()
    for func in gram:
        for lin in gram[func]:
            sums[func[0]] += sum(gram[func][lin].values())
    if sums != nodes_per_label:
        raise violation("C06/sums-per-label", "rule count sums %r, nodes %r" % (dict(sums), dict(nodes_per_label)))
    cf = call("C06/is_contextfree", grammaranalysis.is_contextfree, gram)
    continuous = all(M.tree_gapdeg(c["root"]) == 0 for c in cases)
    if bool(cf) != continuous:
        raise violation("C06/is_contextfree", "is_contextfree=%r, all trees continuous=%r" % (cf, continuous))
    max_count = max(cnt for f in gram for l in gram[f] for cnt in gram[f][l].values())
    return max_count, max_fan


def gen(ctx):
    quick = ctx.tier == "quick"

    def body(cases):
        max_count, max_fan = check(cases)
        ctx.count(key=[c["root"] for c in cases], nontrivial=max_count > 1 or max_fan > 1,
                  classes=["count>1" if max_count > 1 else "count=1", "fanout=%d" % min(max_fan, 4), "trees=%d" % len(cases)])
        if max_count > 1 and max_fan > 1:
            ctx.sample([c["root"] for c in cases], cap=1)
    # words that look like syntax of the file formats are words, too (built through the API here, no file involved)
    ctx.hyp(treebank(8 if quick else 12, words=("a", "b", "c", "Haus", "#500", "#123", "#1", "--", "#BOS"), labels=("S", "NP", "VP", "X", "VROOT"),
                     pos=("NN", "VB", "ART", "$(", "-LRB-")), body, max_examples=700 if quick else 4000)


UNITS = [Unit("extract", gen, check, shards=(4, 16))]


# ----------------------------------------------------------------------------------------------- extraction behind the command line

def check_cli(case):
    """`treetools grammar <treebank> <prefix> treebank`: the written grammar and lexicon, decoded independently, are the
    rule and token occurrences of the treebank (reference extraction from the set model)"""
    from vlib import cligrammar
    rules, lex = cligrammar.run("C06/cli", case)
    exp_gram, exp_lex = lcfrs.extract_treebank(case["bank"])
    want = Counter()
    for func in exp_gram:
        for lin in exp_gram[func]:
            want[(func, lin)] += sum(exp_gram[func][lin].values())
    if rules != want:
        missing = [(k, want[k]) for k in want if rules.get(k) != want[k]][:2]
        extra = [(k, rules[k]) for k in rules if want.get(k) != rules[k]][:2]
        raise violation("C06/cli/" + ("counts" if set(rules) == set(want) else "rules-differ"),
                        "occurrences in the treebank %r, grammar file %r (%s %s -> %s %s)" % (missing, extra, case["src_fmt"], case["src_enc"], case["dest_fmt"], case["dest_enc"]))
    if lex != {w: dict(c) for w, c in exp_lex.items()}:
        raise violation("C06/cli/lexicon", "lexicon file %r, token counts %r" % (lex, {w: dict(c) for w, c in exp_lex.items()}))
    return want


def gen_cli(ctx):
    from vlib import cligrammar
    quick = ctx.tier == "quick"

    def body(case):
        want = check_cli(case)
        ctx.count(key=case, nontrivial=any(c > 1 for c in want.values()) or any(len(l) > 1 for (_f, l) in want), classes=cligrammar.classes(case))
        if case.get("gz") == 2 and len(case["bank"]) >= 3:
            ctx.sample({k: v for k, v in case.items() if k != "bank"}, cap=1)
    ctx.hyp(cligrammar.settings(treebank(7 if quick else 10, 5), [{"type": "treebank"}]), body, max_examples=100 if quick else 1000, shrink=False,
            smaller=cligrammar.smaller)


UNITS.append(Unit("cli", gen_cli, check_cli, shards=(2, 8)))
