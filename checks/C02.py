"""C02 - writers encode every tree faithfully in each output format."""
import io
import re
from hypothesis import strategies as st

from vlib import model as M
from vlib import strategies as S
from vlib import codecs_tree as CT
from vlib.runner import Unit, violation, call, Violation
from vlib.repo import T, treeoutput

RULE = ("Hypothesis: trees built through trees.Tree (<=8/14 tokens, discontinuous or not, unary nodes, shuffled child lists), words/lemmas/morph tags from "
        "a hostile alphabet (XML specials, parentheses and the -LRB- family, non-ASCII incl. astral, lengths 7/8/15/16), lemma/morph/edge present or None, "
        "head/split/block flags set when the option is drawn, integer sid; all five writers x random subsets of the documented output options (+pos_only). "
        "The stream text (between <fmt>_begin and <fmt>_end) is decoded by independent decoders (vlib/codecs_tree.py, xml.etree for TIGER-XML) and must "
        "equal the model after the reference decoration function and documented defaults; export invariants (tokens first, numbers unique and consecutive "
        "from 500, parents resolve, children below parents, ids on #BOS/#EOS); brackets refuses exactly gap degree > 0 (skips under brackets_skipdisco). "
        "Non-trivial = a None field, a special/paren/non-ASCII character, a gap, a boundary-length field or a non-empty option subset; distinct by digest.")
ASSUMPTIONS = ["decoders in vlib/codecs_tree.py are independent of the repository; xml.etree.ElementTree is trusted",
               "words matching #ddd or starting with #BOS/#EOS, whitespace/control characters and empty fields are not generated (the formats cannot carry them); "
               "constituent labels contain no parentheses",
               "TIGER-XML is only written without label-decoration options (the format has its own edge attribute)",
               "boyd_split_numbering without boyd_split_marking accepts both label3 and label*3"]

FORMATS = ["export", "brackets", "discobrackets", "tigerxml", "terminals"]
LABEL_OPTS = ["gf", "gf_terminals", "mark_heads_marking", "boyd_split_marking", "boyd_split_numbering"]
SPECIAL = re.compile(r"[^A-Za-z0-9]")


def decorate(node, opts, is_tok, paren=False):
    """reference decoration: set of accepted label strings"""
    label = node["p"] if is_tok else node["l"]
    edge = node.get("e")
    if edge is None:
        edge = "--"
    if paren and is_tok:
        label = CT.replace_parens(label)
        edge = CT.replace_parens(edge)
    sep = str(opts.get("gf_separator", "-"))
    out = label
    if "gf" in opts and not edge.startswith("-") and (not is_tok or "gf_terminals" in opts):
        out += sep + edge
    if "mark_heads_marking" in opts and node.get("h"):
        out += "'"
    split = bool(node.get("split"))
    star = "*" if ("boyd_split_marking" in opts and split) else ""
    if "boyd_split_numbering" in opts and split:
        return {out + star + str(node["bn"]), out + "*" + str(node["bn"])}
    return {out + star}


def write(prefix, fmt, tree, opts, allowed=()):
    import contextlib
    stream = io.StringIO()
    with contextlib.redirect_stderr(io.StringIO()):
        call(prefix + "/begin", getattr(treeoutput, fmt + "_begin"), stream, **opts)
        call(prefix, getattr(treeoutput, fmt), tree, stream, _allowed=allowed, **opts)
        call(prefix + "/end", getattr(treeoutput, fmt + "_end"), stream, **opts)
    return stream.getvalue()


def compare(prefix, got, exp, opts, fmt, what):
    """got: decoded model (labels as written); exp: input model.  Recursive comparison in token order."""
    paren = fmt in ("brackets", "discobrackets")

    def rec(g, e, is_root):
        if M.is_tok(e) != M.is_tok(g):
            raise violation(prefix + "/structure", "%s: token vs constituent at %r" % (what, M.nums(e)))
        if M.is_tok(e):
            word = CT.replace_parens(e["w"]) if paren else e["w"]
            if g["w"] != word:
                kind = "/paren-mapping" if paren and word != e["w"] else "/word"
                raise violation(prefix + kind, "%s: token %d written as %r, expected %r" % (what, e["n"], g["w"], word))
            if g["p"] not in decorate(e, opts, True, paren):
                raise violation(prefix + "/token-label", "%s: token %d label %r, expected %r" % (what, e["n"], g["p"], sorted(decorate(e, opts, True, paren))))
            if fmt in ("export", "tigerxml"):
                for key, dflt in (("m", "--"), ("e", "--")) + ((("lem", "--"),) if (fmt == "tigerxml" or "export_four" in opts) else ()):
                    want = e.get(key) if e.get(key) is not None else dflt
                    if g.get(key) != want:
                        raise violation(prefix + "/token-field-" + key, "%s: token %d field %s %r, expected %r" % (what, e["n"], key, g.get(key), want))
            return
        if not is_root or fmt in ("brackets", "discobrackets", "tigerxml"):
            if is_root and "brackets_emptyroot" in opts and paren:
                if g["l"] != "":
                    raise violation(prefix + "/emptyroot", "%s: root label %r written although brackets_emptyroot" % (what, g["l"]))
            else:
                sub_opts = dict(opts)
                if g["l"] not in decorate(e, opts, False):
                    raise violation(prefix + "/constituent-label", "%s: constituent over %r labelled %r, expected %r" % (what, M.nums(e), g["l"], sorted(decorate(e, opts, False))))
        if not is_root and fmt in ("export", "tigerxml"):
            want = e.get("e") if e.get("e") is not None else "--"
            if g.get("e") != want:
                raise violation(prefix + "/constituent-edge", "%s: constituent over %r edge %r, expected %r" % (what, M.nums(e), g.get("e"), want))
        if not is_root and fmt == "export":
            want = e.get("m") if e.get("m") is not None else "--"
            if g.get("m") != want:
                raise violation(prefix + "/constituent-morph", "%s: constituent over %r morph %r, expected %r" % (what, M.nums(e), g.get("m"), want))
        gk, ek = M.kids(g), M.kids(e)
        if [M.nums(x) for x in gk] != [M.nums(x) for x in ek]:
            raise violation(prefix + "/structure", "%s: children of node over %r cover %r, expected %r" % (what, M.nums(e), [M.nums(x) for x in gk], [M.nums(x) for x in ek]))
        for gc, ec in zip(gk, ek):
            rec(gc, ec, False)
    if M.nums(got) != M.nums(exp):
        raise violation(prefix + "/tokens", "%s: %d tokens written, tree has %d" % (what, len(M.nums(got)), len(M.nums(exp))))
    rec(got, exp, True)


def check(case):
    fmt = case["fmt"]
    opts = dict(case["opts"])
    root = case["tree"]["root"]
    sid = case["tree"]["sid"]
    prefix = "C02/" + fmt
    tree = M.build(case["tree"], T)
    degree = M.tree_gapdeg(root)
    if fmt == "terminals":
        if "terminals_pos" in opts and "pos_only" in opts:
            try:
                write(prefix, fmt, tree, opts, allowed=(ValueError,))
            except ValueError:
                return
            raise violation(prefix + "/conflicting-options-accepted", "terminals_pos and pos_only together")
        text = write(prefix, fmt, tree, opts)
        toks = M.toks(root)
        if "pos_only" in opts:
            want = [t["p"] for t in toks]
        elif "terminals_pos" in opts:
            want = [t["w"] + ("\t" if "terminals_one" in opts else "/") + t["p"] for t in toks]
        else:
            want = [t["w"] for t in toks]
        if "terminals_one" in opts:
            expect = "".join(w + "\n" for w in want) + "\n"
        else:
            expect = "".join(w + " " for w in want) + "\n"
        accepted = [expect]
        if "terminals_one" in opts and "terminals_pos" in opts and "pos_only" not in opts:
            # the option table documents '/' as separator, the one-per-line layout uses a tab: both accepted
            accepted.append("".join(t["w"] + "/" + t["p"] + "\n" for t in toks) + "\n")
        if text not in accepted:
            raise violation(prefix + "/sentence", "wrote %r, expected %r" % (text, expect))
        return
    if fmt == "brackets":
        if degree > 0:
            try:
                text = write(prefix, fmt, tree, opts, allowed=(ValueError,))
            except ValueError:
                if "brackets_skipdisco" in opts:
                    raise violation(prefix + "/skipdisco-raises", "discontinuous tree raised although brackets_skipdisco")
                return
            if "brackets_skipdisco" not in opts:
                raise violation(prefix + "/discontinuous-written", "gap degree %d written as %r" % (degree, text))
            if text != "":
                raise violation(prefix + "/skipdisco-writes", "gap degree %d, brackets_skipdisco wrote %r" % (degree, text))
            return
        try:
            text = write(prefix, fmt, tree, opts, allowed=(ValueError,))
        except ValueError as exc:
            raise violation(prefix + "/continuous-refused", "continuous tree refused: %s" % exc)
    else:
        text = write(prefix, fmt, tree, opts)
    try:
        if fmt == "export":
            decoded = CT.decode_export(text, v4="export_four" in opts)
            if len(decoded) != 1:
                raise CT.DecodeError("%d sentences" % len(decoded))
            if decoded[0]["sid"] != sid:
                raise violation(prefix + "/sid", "id %r written for sid %r" % (decoded[0]["sid"], sid))
            got = decoded[0]["root"]
        elif fmt == "tigerxml":
            decoded = CT.decode_tigerxml(text.encode("utf-8"))
            if len(decoded) != 1:
                raise CT.DecodeError("%d sentences" % len(decoded))
            if decoded[0]["sid"] != sid:
                raise violation(prefix + "/sid", "id %r written for sid %r" % (decoded[0]["sid"], sid))
            got = decoded[0]["root"]
        else:
            roots = CT.decode_brackets(text, disco=(fmt == "discobrackets"))
            if len(roots) != 1:
                raise CT.DecodeError("%d trees" % len(roots))
            got = roots[0]
    except CT.DecodeError as exc:
        raise violation(prefix + "/undecodable", "%s; output %r" % (exc, text[:400]))
    if fmt == "tigerxml":
        if got["l"] != root["l"]:
            raise violation(prefix + "/constituent-label", "root cat %r, expected %r" % (got["l"], root["l"]))
    compare(prefix, got, root, opts, fmt, "options %r" % sorted(opts))


# ----------------------------------------------------------------------------------------------- generator

def safe_word(word):
    if re.match(r"#[0-9]{3}\Z", word) or word.startswith("#BOS") or word.startswith("#EOS"):
        return "w" + word
    return word


@st.composite
def writer_case(draw, max_tokens):
    fmt = draw(st.sampled_from(FORMATS))
    words = S.rich_words().map(safe_word)
    fields = draw(st.sampled_from(["full", "none", "mixed", "mixed"]))
    edges = st.one_of(st.sampled_from(S.EDGES), st.sampled_from(["-", "-X", "SB-1", "Ä", "$(", "&<"]))
    disc = 0.0 if (fmt == "brackets" and draw(st.integers(0, 3)) > 0) else 0.5
    tree = draw(S.tree_model(max_tokens=max_tokens, disc=disc, words=words, lemmas=words, fields=fields, edges=edges, edge_none=(fields != "full"),
                             morphs=st.one_of(st.sampled_from(["--", "Nom.Sg.Masc", "3.Sg", "*"]), S.rich_words()),
                             pos=st.one_of(st.sampled_from(S.POSTAGS), st.sampled_from(["$(", "-LRB-", "N&N", "PTKVZ7890123456", "$<"])),
                             labels=st.one_of(st.sampled_from(S.CATS), st.sampled_from(["NP-SBJ", "S=1", "VP'", "X&Y", "Ä<P", "ABCDEFGH", "ABCDEFGHIJKLMNOP"])),
                             sid=st.integers(0, 99999)))
    # the bracket formats cannot carry parentheses in constituent labels: keep them out of constituent edges, too
    for node in M.constituents(tree["root"]):
        if node.get("e") and any(c in node["e"] for c in "()"):
            node["e"] = node["e"].replace("(", "<").replace(")", ">")
    opts = {}
    if fmt != "tigerxml":
        for name in LABEL_OPTS:
            if draw(st.integers(0, 3)) == 0:
                opts[name] = True
        if draw(st.integers(0, 3)) == 0:
            opts["gf_separator"] = draw(st.sampled_from(["-", "#", ":", 7]))
    if fmt == "export" and draw(st.booleans()):
        opts["export_four"] = True
    if fmt in ("brackets", "discobrackets") and draw(st.integers(0, 2)) == 0:
        opts["brackets_emptyroot"] = True
    if fmt == "brackets" and draw(st.integers(0, 2)) == 0:
        opts["brackets_skipdisco"] = True
    if fmt == "terminals":
        for name in ("terminals_one", "terminals_pos", "pos_only"):
            if draw(st.integers(0, 2)) == 0:
                opts[name] = True
    if draw(st.integers(0, 5)) == 0:
        opts[draw(st.sampled_from(["terminals_one", "export_four", "brackets_emptyroot", "quiet"]))] = True
        if fmt != "export":
            opts.pop("export_four", None) if fmt == "tigerxml" else None
    nodes = list(M.preorder(tree["root"]))
    if "mark_heads_marking" in opts:
        for node in nodes:
            node["h"] = draw(st.booleans())
    if "boyd_split_marking" in opts or "boyd_split_numbering" in opts:
        for node in nodes:
            node["split"] = draw(st.booleans())
            node["bn"] = draw(st.integers(1, 12))
    if fmt == "terminals" and "brackets_emptyroot" in opts:
        opts.pop("brackets_emptyroot")
    return {"fmt": fmt, "opts": opts, "tree": tree}


def nontrivial(case):
    root = case["tree"]["root"]
    classes = ["fmt=" + case["fmt"]]
    toks = M.toks(root)
    if any(t.get(k) is None for t in toks for k in ("lem", "m", "e")) or any(n.get("e") is None for n in M.constituents(root)):
        classes.append("none-field")
    text = "".join(t["w"] for t in toks)
    if any(c in text for c in "()[]{}") or any(t["w"] in CT.PAREN_NAMES for t in toks):
        classes.append("paren-in-token")
    if any(c in text for c in "&<>\"'"):
        classes.append("xml-special")
    if any(ord(c) > 127 for c in text):
        classes.append("non-ascii")
    if any(len(t["w"]) in (7, 8, 15, 16) for t in toks):
        classes.append("tabstop-length")
    if M.tree_gapdeg(root) > 0:
        classes.append("gap")
    for name in case["opts"]:
        classes.append("opt:" + name)
    return classes


def gen(ctx):
    quick = ctx.tier == "quick"

    def body(case):
        check(case)
        classes = nontrivial(case)
        ctx.count(key=case, nontrivial=len(classes) > 1, classes=classes)
        if len(classes) >= 5:
            ctx.sample(case, cap=3)
    ctx.hyp(writer_case(8 if quick else 14), body, max_examples=1500 if quick else 8000)


def gen_long(ctx):
    """sentences with more than a hundred tokens through every writer (export numbering beyond #599, long lines)"""
    from vlib import shapes
    for name, tree in shapes.long_sentences():
        for fmt in FORMATS:
            if fmt == "brackets" and M.tree_gapdeg(tree["root"]) > 0:
                continue
            for opts in ({}, {"export_four": True} if fmt == "export" else {"gf": True}):
                if fmt in ("tigerxml", "terminals") and opts:
                    continue
                case = {"fmt": fmt, "opts": opts, "tree": tree}
                try:
                    ctx.run_case(check, case)
                except Violation as vio:
                    ctx.record(vio)
                ctx.count(key=(name, fmt, sorted(opts)), nontrivial=True, classes=["long:" + name, "long:fmt=" + fmt])


UNITS = [Unit("writers", gen, check, shards=(4, 16)),
         Unit("long_sentences", gen_long, check, shards=(1, 1))]


# ----------------------------------------------------------------------------------------------- the writers behind the command line

def gen_cli_write(ctx):
    """every writer reached through `treetools transform` (runpy, in this process) from an export source: all five
    destination formats, output options given as --dest-opts (incl. options of other writers, which must be inert),
    destination encodings; decoded by the independent decoders and compared with the projection of the source model
    (oracle and projection table of checks/C03.py)"""
    from checks import C03
    quick = ctx.tier == "quick"

    def body(case):
        C03.check(case)
        ctx.count(key=case, nontrivial=not C03.trivial(case), classes=["cli-write:" + c for c in C03.classes_of(case)])
    ctx.hyp(C03.conv_case(7 if quick else 10, 4 if quick else 6, 0.0, srcs=["export"]), body, max_examples=80 if quick else 800, shrink=False,
            smaller=C03.smaller)


def check_cli_write(case):
    from checks import C03
    return C03.check(case)


UNITS.append(Unit("cli_write", gen_cli_write, check_cli_write, shards=(4, 8)))
