"""C14 - tree binarization and unary-chain collapsing are reversible normal forms."""
from hypothesis import strategies as st

from vlib import model as M
from vlib import strategies as S
from vlib.runner import Unit, violation, call, Violation
from vlib.repo import T, transform

RULE = ("binarize: Hypothesis head-marked trees (<=10/14 tokens, arity 1..6, head first/last/middle, discontinuous nodes, labels built "
        "from parts category[-function][=gap][-coindex], no '+', no leading '@'), parameter bare_bin_labels; oracle: <=2 children "
        "everywhere, added nodes are exactly the @-labelled ones with label '@'+parent label without co-index (or '@'), splicing them "
        "out restores the original tree (all fields, head flags); a node with >2 children and no head key anywhere must raise. "
        "chains: trees with unary chains of length 1..4 inserted at the root, in the middle and above tokens; collapse leaves no unary "
        "node and joins labels top-down with '+'; uncollapse returns the root of the original tree (labels, words, POS, structure). "
        "Non-trivial = arity >= 4 with a middle head, or a chain of length >= 2; distinct by digest.")
ASSUMPTIONS = ["'none of which carries a head mark' is read as: no head key on any node (heads never marked)",
               "after collapsing, only labels, words, POS and structure are compared (the collapse documents no more)"]

CAT = st.sampled_from(["S", "NP", "VP", "PP", "X", "AP", "-NONE-", "X-", "--"])


@st.composite
def part_label(draw):
    out = draw(CAT)
    if draw(st.integers(0, 3)) == 0:
        out += "-" + draw(st.sampled_from(["SBJ", "HD", "OA"]))
    if draw(st.integers(0, 5)) == 0:
        out += "=" + str(draw(st.integers(1, 3)))
    if draw(st.integers(0, 3)) == 0:
        out += "-" + str(draw(st.integers(1, 9)))
    return out


def strip_coindex(label):
    import re
    return re.sub(r"-[0-9]+\Z", "", label)


@st.composite
def headed_tree(draw, max_tokens, heads=True):
    case = draw(S.tree_model(max_tokens=max_tokens, disc=0.5, labels=part_label(), max_arity=6,
                             pos=st.sampled_from(["NN", "VB", "ART", "$."])))
    if heads:
        for node in M.constituents(case["root"]):
            kids = node["c"]
            pick = draw(st.sampled_from([0, len(kids) - 1, draw(st.integers(0, len(kids) - 1))]))
            for i, child in enumerate(kids):
                child["h"] = (i == pick)
        case["root"]["h"] = False
    return case


def snap(prefix, tree, flags=True):
    try:
        return M.snapshot(tree, flags=flags)[0]
    except M.Malformed as bad:
        raise violation(prefix + "/malformed:" + bad.reason, str(bad))


FIELDS = dict(tok_fields=("w", "p", "lem", "m", "e", "h"), con_fields=("l", "e", "h"))


def check_binarize(case):
    tree = M.build(case["tree"], T)
    root = case["tree"]["root"]
    params = {"bare_bin_labels": True} if case.get("bare") else {}
    marked = any("h" in n for n in M.preorder(root))
    wide = any(len(n["c"]) > 2 for n in M.constituents(root))
    if not marked:
        if not wide:
            result = call("C14/binarize", transform.binarize, tree, **params)
            if M.canon(snap("C14/binarize", result), **FIELDS) != M.canon(root, **FIELDS):
                raise violation("C14/binarize/changed-binary-tree", "a tree with <=2 children everywhere was changed")
            return {"arity": 2, "middle": False}
        try:
            result = transform.binarize(tree, **params)
        except Exception:
            return {"arity": 3, "middle": False, "rejected": True}
        raise violation("C14/binarize/unmarked-accepted", "a node with more than two children and no head mark anywhere was binarized")
    result = call("C14/binarize", transform.binarize, tree, **params)
    if result is not tree:
        raise violation("C14/binarize/returned-other-node", "")
    after = snap("C14/binarize", result)
    if M.sentence(after) != M.sentence(root):
        raise violation("C14/binarize/sentence-changed", "")
    parent = {}
    for node in M.preorder(after):
        for child in node.get("c", ()):
            parent[id(child)] = node
    added = 0
    for node in M.constituents(after):
        if len(node["c"]) > 2:
            raise violation("C14/binarize/more-than-two-children", "%s has %d children" % (node["l"], len(node["c"])))
        if node["l"].startswith("@"):
            added += 1
            anc = parent[id(node)]
            while anc["l"].startswith("@"):
                anc = parent[id(anc)]
            want = "@" if case.get("bare") else "@" + strip_coindex(anc["l"])
            if node["l"] != want:
                raise violation("C14/binarize/at-label", "@-node under %r is labelled %r, expected %r" % (anc["l"], node["l"], want))
    expected_added = sum(max(0, len(n["c"]) - 2) for n in M.constituents(root))
    if added != expected_added:
        raise violation("C14/binarize/number-of-added-nodes", "%d @-nodes for %d surplus children" % (added, expected_added))

    def splice(node):
        if M.is_tok(node):
            return [node]
        kids = []
        for child in node["c"]:
            kids.extend(splice(child))
        if node["l"].startswith("@"):
            return kids
        new = dict(node)
        new["c"] = kids
        return [new]
    restored = splice(after)[0]
    if M.canon(restored, **FIELDS) != M.canon(root, **FIELDS):
        raise violation("C14/binarize/not-reversible", "removing the @-nodes does not give back the original tree")
    widest = max(len(n["c"]) for n in M.constituents(root))
    middle = any(len(n["c"]) >= 4 and not (M.kids(n)[0].get("h") or M.kids(n)[-1].get("h")) for n in M.constituents(root))
    return {"arity": widest, "middle": middle}


# ---------------------------------------------------------------------------------------------- unary chains

@st.composite
def chain_tree(draw, max_tokens):
    case = draw(S.tree_model(max_tokens=max_tokens, disc=0.4, labels=CAT, max_arity=4,
                             pos=st.sampled_from(["NN", "VB", "ART", "$."])))
    root = case["root"]
    for _ in range(draw(st.integers(0, 3))):
        nodes = [n for n in M.preorder(root)]
        target = nodes[draw(st.integers(0, len(nodes) - 1))]
        length = draw(st.integers(1, 4))
        if target is root:
            inner = {"l": draw(CAT), "e": "--", "lem": "--", "m": "--", "c": root["c"]}
            for _i in range(length - 1):
                inner = {"l": draw(CAT), "e": "--", "lem": "--", "m": "--", "c": [inner]}
            root["c"] = [inner]
        else:
            par = [n for n in nodes if not M.is_tok(n) and any(c is target for c in n["c"])][0]
            wrapped = target
            for _i in range(length):
                wrapped = {"l": draw(CAT), "e": draw(st.sampled_from(S.EDGES)), "lem": "--", "m": "--", "c": [wrapped]}
            par["c"] = [wrapped if c is target else c for c in par["c"]]
    return case


def collapsed_model(node):
    """Expected result of collapsing, on the model."""
    labels = []
    cur = node
    while not M.is_tok(cur) and len(cur["c"]) == 1:
        labels.append(cur["l"])
        cur = cur["c"][0]
    if M.is_tok(cur):
        new = dict(cur)
        new["p"] = "+".join(labels + [cur["p"]])
        return new
    new = dict(cur)
    new["l"] = "+".join(labels + [cur["l"]])
    new["c"] = [collapsed_model(child) for child in cur["c"]]
    return new


CH_FIELDS = dict(tok_fields=("w", "p"), con_fields=("l",))


def longest_chain(root):
    best = 0
    for node in M.constituents(root):
        length = 0
        cur = node
        while not M.is_tok(cur) and len(cur["c"]) == 1:
            length += 1
            cur = cur["c"][0]
        best = max(best, length)
    return best


def check_chains(case):
    root = case["root"]
    one_token = len(M.toks(root)) == 1 and all(len(n["c"]) == 1 for n in M.constituents(root))
    tree = M.build(case, T)
    result = call("C14/collapse_unary_chains", transform.collapse_unary_chains, tree)
    if result is not tree:
        raise violation("C14/collapse/returned-other-node", "")
    if one_token:
        return {"chain": longest_chain(root), "skipped": "one-token sentence (documented caveat of collapse_unary_chains)"}
    mid = snap("C14/collapse", result, flags=False)
    for node in M.constituents(mid):
        if len(node["c"]) == 1:
            raise violation("C14/collapse/unary-node-left", "%s" % node["l"])
    if M.canon(mid, **CH_FIELDS) != M.canon(collapsed_model(root), **CH_FIELDS):
        raise violation("C14/collapse/labels-or-structure", "collapsed tree differs from the chains joined top-down with '+'")
    back = call("C14/uncollapse_unary_chains", transform.uncollapse_unary_chains, result)
    after = snap("C14/uncollapse", back, flags=False)
    if M.canon(after, **CH_FIELDS) != M.canon(root, **CH_FIELDS):
        raise violation("C14/uncollapse/not-original", "uncollapse(collapse(t)) differs from t in labels, words or structure (got root %r)" % (after.get("l"),))
    if back.data.get("sid") != case["sid"]:
        raise violation("C14/uncollapse/sid-lost", "%r" % (back.data.get("sid"),))
    return {"chain": longest_chain(root)}


def gen_binarize(ctx):
    quick = ctx.tier == "quick"
    strategy = st.fixed_dictionaries({"tree": st.one_of(headed_tree(10 if quick else 14), headed_tree(10 if quick else 14), headed_tree(7, heads=False)),
                                      "bare": st.booleans()})

    def body(case):
        res = check_binarize(case)
        ctx.count(key=case, nontrivial=res["arity"] >= 4 and res["middle"],
                  classes=["binarize:arity=%d" % min(res["arity"], 6), "binarize:rejected-unmarked" if res.get("rejected") else "binarize:ok",
                           "bare" if case["bare"] else "labelled"])
        if res["arity"] >= 4 and res["middle"]:
            ctx.sample(case, cap=2)
    ctx.hyp(strategy, body, max_examples=1500 if quick else 8000)


def gen_chains(ctx):
    quick = ctx.tier == "quick"

    def body(case):
        res = check_chains(case)
        root = case["root"]
        classes = ["chains:longest=%d" % min(res["chain"], 5)]
        if len(root["c"]) == 1 and not M.is_tok(root["c"][0]):
            classes.append("chains:at-root")
        if res.get("skipped"):
            classes.append("chains:one-token-skipped")
        ctx.count(key=case["root"], nontrivial=res["chain"] >= 2 and not res.get("skipped"), classes=classes)
        if res["chain"] >= 3:
            ctx.sample(case["root"], cap=2)
    ctx.hyp(chain_tree(8 if quick else 12), body, max_examples=1500 if quick else 8000)


UNITS = [Unit("binarize", gen_binarize, check_binarize, shards=(2, 8)),
         Unit("chains", gen_chains, check_chains, shards=(2, 8))]


from vlib import clidiff
UNITS.append(clidiff.unit("C14"))
