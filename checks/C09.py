"""C09 - written grammar and lexicon files decode to exactly the grammar in memory."""
import contextlib
import copy
import io
import os
import shutil
import tempfile
from collections import Counter
from hypothesis import strategies as st

from vlib import model as M
from vlib import strategies as S
from vlib import lcfrs, cli
from vlib import codecs_tree as CT
from vlib import codecs_grammar as CG
from vlib.runner import Unit, violation, call, Violation
from vlib.repo import T, grammar, grammaroutput, grammarinput, grammaranalysis
from checks.C07 import REORD

RULE = ("Hypothesis treebank pools (1..5 trees from 1..3 shapes, <=7/10 tokens, 4 category labels, ambiguous / capitalised / lower-case / non-ASCII words) "
        "-> grammar.extract, raw or binarized in a drawn mode (leftright/optimal, deterministic or Markov v,h in 0..3 +-nofanout) -> written as pmcfg, rcg "
        "or lopar with/without lex_in_grammar in utf-8 or latin-1 (writers get fresh copies). Independent decoders (vlib/codecs_grammar.py) must give back "
        "the same rules, linearizations and summed counts and the same word/tag counts; the RCG files are also re-read with grammarinput.rcg; LoPar .start = "
        "left-hand labels never used on a right-hand side with their counts, .oc/.OC = tag counts by capitalisation; a non-context-free grammar must be "
        "refused by lopar without writing files. cli: `treetools grammar` on export files (all formats/types) and with a written RCG grammar as input. "
        "Non-trivial = a count > 1, a fan-out > 1, a shared sN sequence or an ambiguous word; distinct by digest.")
ASSUMPTIONS = ["labels carry no parentheses/whitespace and no trailing digit (RCG); words are disjoint from labels when lexical rules are embedded",
               "the grammar in memory is produced by the repository's own extract/binarize (their correctness is C06-C08)"]

WORDS = ["Haus", "haus", "der", "Der", "läuft", "Über", "x", "a-b", "3D", "%", "#", "#x", "#hashtag"]
WORDS_LATIN1 = WORDS


def bank_strategy(max_tokens, disc):
    tree = S.tree_model(max_tokens=max_tokens, disc=disc, labels=st.sampled_from(["S", "NP", "VP", "X"]), pos=st.sampled_from(["NN", "VB", "ART"]),
                        words=st.sampled_from(WORDS), max_arity=4)

    @st.composite
    def build(draw):
        pool = draw(st.lists(tree, min_size=1, max_size=3))
        if draw(st.integers(0, 5)) == 0:
            # a flat constituent with 11..13 children (more than ten variables in one clause), optionally with a gap
            n = draw(st.integers(11, 13))
            toks = [{"w": draw(st.sampled_from(WORDS)), "p": draw(st.sampled_from(["NN", "VB", "ART"])), "n": i + 1, "e": "--", "lem": "--", "m": "--"} for i in range(n + 1)]
            inner = toks[:n]
            outer = [toks[n]]
            if disc > 0 and draw(st.booleans()):
                k = draw(st.integers(1, n - 2))
                toks[k]["n"], toks[n]["n"] = toks[n]["n"], toks[k]["n"]
            flat = {"l": "CNP", "e": "--", "lem": "--", "m": "--", "c": inner}
            pool.append({"sid": 1, "root": {"l": "VROOT", "e": "--", "lem": "--", "m": "--", "c": [flat] + outer}})
        if disc > 0 and draw(st.integers(0, 9)) == 0:
            # a 'comb': two constituents covering the odd and the even tokens (fan-outs 10 and more: two-digit fan-outs)
            n = draw(st.integers(19, 23))
            toks = [{"w": draw(st.sampled_from(WORDS)), "p": draw(st.sampled_from(["NN", "VB", "ART"])), "n": i + 1, "e": "--", "lem": "--", "m": "--"} for i in range(n)]
            odd = {"l": "X", "e": "--", "lem": "--", "m": "--", "c": toks[0::2]}
            even = {"l": "NP", "e": "--", "lem": "--", "m": "--", "c": toks[1::2]}
            pool.append({"sid": 1, "root": {"l": "VROOT", "e": "--", "lem": "--", "m": "--", "c": [odd, even]}})
        picks = draw(st.lists(st.integers(0, len(pool) - 1), min_size=1, max_size=5))
        bank = [pool[i] for i in picks]
        # counts with two and three digits
        repeat = draw(st.sampled_from([1, 1, 1, 1, 1, 11, 101]))
        return bank * repeat if len(bank) * repeat <= 330 else bank
    return build()


def in_memory(bank, mode):
    gram, lex = {}, {}
    for tree in bank:
        call("C09/extract", grammar.extract, M.build(tree, T), gram, lex)
    if mode["type"] != "treebank":
        opts = None
        if mode.get("markov"):
            opts = {"v": mode["v"], "h": mode["h"]}
            if mode.get("nofanout"):
                opts["nofanout"] = True
        gram = call("C09/binarize", grammar.binarize, gram, reordering=REORD["none" if mode["type"] == "leftright" else "optimal"], markov_opts=opts)
    return gram, lex


def totals(gram):
    out = Counter()
    for func in gram:
        for lin in gram[func]:
            out[(func, lin)] += sum(gram[func][lin].values())
    return out


def lex_rules(lex):
    out = Counter()
    for word in lex:
        for tag, cnt in lex[word].items():
            out[((tag, word), (((0, 0),),))] += cnt
    return out


def plain_lex(lex):
    return {w: dict(c) for w, c in lex.items()}


def compare_rules(prefix, got, exp):
    if got != exp:
        missing = [(k, exp[k]) for k in exp if got.get(k) != exp[k]][:2]
        extra = [(k, got[k]) for k in got if exp.get(k) != got[k]][:2]
        same_keys = set(got) == set(exp)
        raise violation(prefix + ("/counts" if same_keys else "/rules"), "in memory %r, in the file %r" % (missing, extra))


def check_api(case):
    fmt = case["fmt"]
    enc = case["enc"]
    gram, lex = in_memory(case["bank"], case["mode"])
    exp_rules = totals(gram)
    exp_lex = plain_lex(lex)
    params = {"lex_in_grammar": True} if case.get("lex_in_grammar") else {}
    tmpdir = tempfile.mkdtemp(prefix="c09_")
    dest = os.path.join(tmpdir, "g")
    prefix = "C09/" + fmt
    try:
        writer = getattr(grammaroutput, fmt)
        with contextlib.redirect_stderr(io.StringIO()):
            if fmt == "lopar":
                cf = all(len(lin) == 1 for (_f, lin) in exp_rules)
                try:
                    call(prefix, writer, copy.deepcopy(gram), copy.deepcopy(lex), dest, enc, _allowed=(ValueError,), **params)
                except ValueError:
                    if cf:
                        raise violation(prefix + "/context-free-refused", "a context-free grammar was refused")
                    if os.listdir(tmpdir):
                        raise violation(prefix + "/files-despite-refusal", "%r" % os.listdir(tmpdir))
                    return exp_rules, exp_lex, "refused"
                if not cf:
                    raise violation(prefix + "/non-context-free-accepted", "LoPar files written for a grammar with fan-out > 1")
            else:
                call(prefix, writer, copy.deepcopy(gram), copy.deepcopy(lex), dest, enc, **params)
        check_files(prefix, fmt, dest, enc, exp_rules, exp_lex, bool(params))
        if fmt == "rcg" and not params:
            with contextlib.redirect_stderr(io.StringIO()), contextlib.redirect_stdout(io.StringIO()):
                got_gram, got_lex = call(prefix + "/own-reader", grammarinput.rcg, dest, enc)
            compare_rules(prefix + "/own-reader", totals(got_gram), exp_rules)
            if plain_lex(got_lex) != exp_lex:
                raise violation(prefix + "/own-reader/lexicon", "%r vs %r" % (plain_lex(got_lex), exp_lex))
    finally:
        shutil.rmtree(tmpdir, ignore_errors=True)
    return exp_rules, exp_lex, "written"


def check_files(prefix, fmt, dest, enc, exp_rules, exp_lex, lex_in_grammar):
    try:
        if fmt == "pmcfg":
            got = CG.decode_pmcfg(dest + ".pmcfg", enc)
        elif fmt == "rcg":
            got = CG.decode_rcg(dest + ".rcg", enc)
        else:
            got = None
        if fmt in ("pmcfg", "rcg"):
            want = exp_rules + lex_rules(exp_lex) if lex_in_grammar else exp_rules
            compare_rules(prefix, got, want)
            if lex_in_grammar:
                words = {}
                for (func, lin), cnt in got.items():
                    if (func, lin) in lex_rules(exp_lex) and (func, lin) not in exp_rules:
                        words.setdefault(func[1], {})[func[0]] = cnt
                if words != exp_lex:
                    raise violation(prefix + "/lexical-rules", "word/tag counts in the grammar file %r, lexicon %r" % (words, exp_lex))
                if os.path.exists(dest + ".lex"):
                    pass
            else:
                got_lex = CG.decode_lex(dest + ".lex", enc)
                if got_lex != exp_lex:
                    raise violation(prefix + "/lexicon", "lexicon file %r, in memory %r" % (got_lex, exp_lex))
        else:
            got = CG.decode_lopar_gram(dest + ".gram", enc)
            want = Counter()
            for (func, lin), cnt in exp_rules.items():
                want[func] += cnt
            if got != want:
                raise violation(prefix + "/rules-or-counts", "%r vs %r" % (sorted(got.items())[:3], sorted(want.items())[:3]))
            got_lex = CG.decode_lex(dest + ".lex", enc)
            if got_lex != exp_lex:
                raise violation(prefix + "/lexicon", "lexicon file %r, in memory %r" % (got_lex, exp_lex))
            lhs = Counter()
            rhs = set()
            for func, cnt in want.items():
                lhs[func[0]] += cnt
                rhs.update(func[1:])
            start = {sym: cnt for sym, cnt in lhs.items() if sym not in rhs}
            got_start = CG.decode_counts(dest + ".start", enc)
            if got_start != start:
                raise violation(prefix + "/start-symbols", "%r, expected %r" % (got_start, start))
            lower, upper = Counter(), Counter()
            for word, tags in exp_lex.items():
                for tag, cnt in tags.items():
                    (upper if word[0].isupper() else lower)[tag] += cnt
            if CG.decode_counts(dest + ".oc", enc) != dict(lower):
                raise violation(prefix + "/open-class-lower", "%r, expected %r" % (CG.decode_counts(dest + ".oc", enc), dict(lower)))
            if CG.decode_counts(dest + ".OC", enc) != dict(upper):
                raise violation(prefix + "/open-class-upper", "%r, expected %r" % (CG.decode_counts(dest + ".OC", enc), dict(upper)))
    except CG.GrammarDecodeError as exc:
        raise violation(prefix + "/undecodable", str(exc))
    except FileNotFoundError as exc:
        raise violation(prefix + "/file-missing", str(exc))


def check_cli(case):
    """export file -> treetools grammar -> files; and RCG files as input of the grammar command"""
    fmt = case["fmt"]
    enc = case["enc"]
    mode = case["mode"]
    tmpdir = tempfile.mkdtemp(prefix="c09_")
    prefix = "C09/cli-" + fmt
    try:
        src = os.path.join(tmpdir, "bank.export")
        with open(src, "w", encoding="utf-8") as stream:
            stream.write(CT.encode_export(case["bank"]))
        # output prefixes ending in a dot or in letters of the format names are ordinary prefixes, too
        dest = os.path.join(tmpdir, case.get("prefix", "out"))
        args = ["grammar", src, dest, mode["type"], "--src-format", "export", "--dest-format", fmt, "--dest-enc", enc]
        if mode.get("markov"):
            args += ["--markov", "v:%d" % mode["v"], "h:%d" % mode["h"]] + (["nofanout"] if mode.get("nofanout") else [])
        if case.get("lex_in_grammar"):
            args += ["--dest-opts", "lex_in_grammar"]
        gram, lex = in_memory(case["bank"], mode)
        exp_rules, exp_lex = totals(gram), plain_lex(lex)
        cf = all(len(lin) == 1 for (_f, lin) in exp_rules)
        run = cli.run_inproc if case.get("inproc") else cli.run_sub
        res = run(args)
        if fmt == "lopar" and not cf:
            if res.code == 0:
                raise violation(prefix + "/non-context-free-accepted", "exit 0")
            return "refused"
        if res.code != 0:
            raise violation(prefix + "/exit-status", "exit %d: %s" % (res.code, res.err[-400:]))
        check_files(prefix, fmt, dest, enc, exp_rules, exp_lex, bool(case.get("lex_in_grammar")))
        if fmt == "rcg" and not case.get("lex_in_grammar"):
            dest2 = os.path.join(tmpdir, "again")
            res = run(["grammar", dest, dest2, "treebank", "--src-format", "rcg", "--src-enc", enc, "--dest-format", "rcg", "--dest-enc", enc])
            if res.code != 0:
                raise violation("C09/cli-grammar-input/exit-status", "exit %d: %s" % (res.code, res.err[-400:]))
            try:
                got = CG.decode_rcg(dest2 + ".rcg", enc)
                got_lex = CG.decode_lex(dest2 + ".lex", enc)
            except (CG.GrammarDecodeError, FileNotFoundError) as exc:
                raise violation("C09/cli-grammar-input/undecodable", str(exc))
            if not got and exp_rules:
                raise violation("C09/cli-grammar-input/empty-grammar", "grammar file used as input gave an empty grammar")
            compare_rules("C09/cli-grammar-input", got, exp_rules)
            if got_lex != exp_lex:
                raise violation("C09/cli-grammar-input/lexicon", "%r vs %r" % (got_lex, exp_lex))
    finally:
        shutil.rmtree(tmpdir, ignore_errors=True)
    return "written"


def all_modes():
    out = [{"type": "treebank"}]
    for typ in ("leftright", "optimal"):
        out.append({"type": typ})
        for v in range(4):
            for h in range(4):
                for nf in (False, True):
                    out.append({"type": typ, "markov": True, "v": v, "h": h, "nofanout": nf})
    return out


@st.composite
def api_case(draw, max_tokens):
    fmt = draw(st.sampled_from(["pmcfg", "rcg", "lopar"]))
    disc = 0.6 if fmt != "lopar" else draw(st.sampled_from([0.0, 0.0, 0.0, 0.6]))
    mode = draw(st.sampled_from(all_modes()[:3])) if draw(st.booleans()) else draw(st.sampled_from(all_modes()))
    return {"fmt": fmt, "bank": draw(bank_strategy(max_tokens, disc)), "mode": mode, "enc": draw(st.sampled_from(["utf-8", "utf-8", "latin-1"])),
            "lex_in_grammar": fmt != "lopar" and draw(st.integers(0, 2)) == 0,
            "prefix": draw(st.sampled_from(["out", "g", "grammar", "tiger", "neg.train", "corpus.rcg", "gram", "lopar.", "x_pmcfg"]))}


def classify(case, exp_rules, exp_lex, status):
    out = ["fmt=" + case["fmt"], "type=" + case["mode"]["type"] + ("+markov" if case["mode"].get("markov") else ""), "enc=" + case["enc"], status]
    if case.get("lex_in_grammar"):
        out.append("lex_in_grammar")
    if any(c > 1 for c in exp_rules.values()):
        out.append("count>1")
    if any(len(lin) > 1 for (_f, lin) in exp_rules):
        out.append("fanout>1")
    if any(len(t) > 1 for t in exp_lex.values()):
        out.append("ambiguous-word")
    seqs = Counter(arg for (_f, lin) in exp_rules for arg in lin)
    if any(c > 1 for c in seqs.values()):
        out.append("shared-sequence")
    return out


def gen_api(ctx):
    quick = ctx.tier == "quick"

    def body(case):
        exp_rules, exp_lex, status = check_api(case)
        classes = classify(case, exp_rules, exp_lex, status)
        ctx.count(key=case, nontrivial=any(c in classes for c in ("count>1", "fanout>1", "ambiguous-word", "shared-sequence")), classes=classes)
        if "fanout>1" in classes and "count>1" in classes:
            ctx.sample({k: v for k, v in case.items() if k != "bank"}, cap=2)
    ctx.hyp(api_case(7 if quick else 10), body, max_examples=700 if quick else 4000)


def gen_cli(ctx):
    quick = ctx.tier == "quick"

    def body(case):
        status = check_cli(case)
        ctx.count(key=case, nontrivial=True, classes=["cli:fmt=" + case["fmt"], "cli:" + status])
    ctx.hyp(api_case(6), body, max_examples=10 if quick else 60, shrink=False,
            smaller=lambda c: [dict(c, bank=c["bank"][:i] + c["bank"][i + 1:]) for i in range(len(c["bank"])) if len(c["bank"]) > 1])


def gen_cli_inproc(ctx):
    """the same command line through runpy in this process: many more cases, and every case runs after the earlier ones
    (other formats, options, encodings) in one interpreter"""
    quick = ctx.tier == "quick"

    def body(case):
        status = check_cli(case)
        ctx.count(key=case, nontrivial=True, classes=["cli-inproc:fmt=" + case["fmt"], "cli-inproc:" + status])
    ctx.hyp(api_case(6).map(lambda c: dict(c, inproc=True)), body, max_examples=60 if quick else 600, shrink=False,
            smaller=lambda c: [dict(c, bank=c["bank"][:i] + c["bank"][i + 1:]) for i in range(len(c["bank"])) if len(c["bank"]) > 1])


UNITS = [Unit("api", gen_api, check_api, shards=(4, 16)),
         Unit("cli", gen_cli, check_cli, shards=(4, 8)),
         Unit("cli_inproc", gen_cli_inproc, check_cli, shards=(4, 8))]
