"""C03 - any-to-any conversion through the command line is total and lossless."""
import contextlib
import gzip
import io
import os
import shutil
import tempfile
from hypothesis import strategies as st

from vlib import model as M
from vlib import strategies as S
from vlib import cli
from vlib import codecs_tree as CT
from vlib.runner import Unit, violation, call, Violation
from vlib.repo import T, treeinput

RULE = ("Hypothesis corpora (1..4/6 sentences, <=7/10 tokens, all shapes, alphabets narrowed to what the chosen formats and encodings can carry) written by the "
        "independent encoders in one of the 4 source formats (utf-8 / latin-1 / utf-16, plain or .gz, file or directory), converted by the real entry point "
        "`python treetools transform` (subprocess; in-process runpy for bulk) into each of the 5 destination formats with drawn encodings and inverse option "
        "pairs (export_four, gf + gf_split, brackets_emptyroot). Oracle: exit status 0 whenever the destination can represent the trees; destination decoded by "
        "independent decoders = source model projected on what both formats carry; the repository's reader of the destination format yields the same; "
        "converting back to the source format decodes to the projection of the original (A->B->A). Non-trivial = not (single sentence, ASCII, utf-8, plain, "
        "same format); distinct by digest of (pair, options, file bytes).")
ASSUMPTIONS = ["projection table in checks/C03.py: export v3 word/POS/morph/edge/labels/structure/id (+lemma for v4), TIGER-XML all fields + id, brackets paren-mapped words, POS, "
               "labels, continuous structure, positional id (edges only under gf/gf_split), discobrackets the same plus discontinuity, terminals words",
               "in-process runs call the same script through runpy with patched argv; a drawn fraction and the whole thorough tier use subprocesses"]

SRC = ["export", "brackets", "discobrackets", "tigerxml"]
DEST = ["export", "brackets", "discobrackets", "tigerxml", "terminals"]
PY_ENC = {"utf-8": "utf-8", "latin-1": "latin-1", "utf-16": "utf-16"}


# ----------------------------------------------------------------------------------------------- model-level pipeline

def sim_read(fmt, node, v4=True, gf_split=False, is_root=True, sep="-"):
    """what the reader of `fmt` delivers for a file-level model node"""
    new = {}
    if M.is_tok(node):
        new = {"w": node["w"], "p": node["p"], "n": node["n"]}
        if fmt == "export":
            new.update(e=node.get("e") or "--", m=node.get("m") or "--", lem=(node.get("lem") or "--") if v4 else "--")
        elif fmt == "tigerxml":
            new.update(e=node.get("e") or "--", m=node.get("m") or "--", lem=node.get("lem") or "--")
        else:
            new.update(e="--", m="--", lem=None)
    else:
        new = {"l": node["l"], "c": [sim_read(fmt, c, v4, gf_split, False, sep) for c in node["c"]]}
        if fmt in ("export", "tigerxml"):
            new["e"] = node.get("e") or "--"
            new["m"] = (node.get("m") or "--") if fmt == "export" else "--"
        else:
            new["e"] = "--"
            new["m"] = "--"
        if is_root:
            new["e"] = "--" if fmt != "brackets" and fmt != "discobrackets" else None
            if fmt == "export":
                new["l"] = "VROOT"
    if gf_split and not (is_root and fmt == "export"):
        key = "p" if M.is_tok(node) else "l"
        label, gf = split_gf(new[key], sep)
        new[key] = label
        new["e"] = gf
    if is_root and fmt == "tigerxml" and not M.is_tok(node) and new["l"] != "VROOT":
        # documented: the TIGER-XML reader puts a (unary) VROOT above a graph whose root is not VROOT
        new["e"] = "--"
        new = {"l": "VROOT", "e": "--", "m": "--", "c": [new]}
    return new


def split_gf(label, sep="-"):
    """labels in this check are CAT or CAT<sep>GF with plain categories"""
    idx = label.find(sep)
    if 0 < idx < len(label) - 1:
        return label[:idx], label[idx + 1:]
    return label, "--"


def sim_write(fmt, node, opts, is_root=True):
    """file-level model the writer of `fmt` produces for an in-memory model node"""
    paren = fmt in ("brackets", "discobrackets")
    if M.is_tok(node):
        word = CT.replace_parens(node["w"]) if paren else node["w"]
        label = CT.replace_parens(node["p"]) if paren else node["p"]
        edge = node.get("e") if node.get("e") is not None else "--"
        if paren:
            edge = CT.replace_parens(edge)
        if "gf" in opts and "gf_terminals" in opts and not edge.startswith("-") and fmt != "tigerxml":
            label += sep_of(opts) + edge
        new = {"w": word, "p": label, "n": node["n"]}
        if fmt in ("export", "tigerxml"):
            new["e"] = node.get("e") if node.get("e") is not None else "--"
            new["m"] = node.get("m") if node.get("m") is not None else "--"
            if fmt == "tigerxml" or "export_four" in opts:
                new["lem"] = node.get("lem") if node.get("lem") is not None else "--"
        return new
    label = node["l"]
    edge = node.get("e") if node.get("e") is not None else "--"
    if "gf" in opts and not edge.startswith("-") and fmt != "tigerxml":
        label += sep_of(opts) + edge
    if is_root and paren and "brackets_emptyroot" in opts:
        label = ""
    new = {"l": label, "c": [sim_write(fmt, c, opts, False) for c in node["c"]]}
    if fmt in ("export", "tigerxml") and not is_root:
        new["e"] = edge
        if fmt == "export":
            new["m"] = node.get("m") if node.get("m") is not None else "--"
    return new


def sep_of(opts):
    return "#" if "gf_separator:#" in opts else "-"


def comparable(fmt, node, v4=False):
    """canonical form of a file-level model for the destination format"""
    if fmt == "terminals":
        return tuple(t["w"] for t in M.toks(node))
    if fmt == "export":
        root = dict(node)
        root["l"] = "VROOT"
        root["e"] = None
        root["m"] = None
        return M.canon(root, ("w", "p", "m", "e", "lem") if v4 else ("w", "p", "m", "e"), ("l", "e", "m"))
    if fmt == "tigerxml":
        root = dict(node)
        root["e"] = None
        return M.canon(root, ("w", "p", "lem", "m", "e"), ("l", "e"))
    return M.canon(node, ("w", "p"), ("l",))


# ----------------------------------------------------------------------------------------------- file handling

def source_models(case):
    """file-level models of the source corpus (root label variety; TIGER-XML optionally without the VROOT nonterminal)"""
    out = []
    novroot = tiger_novroot(case)
    for tree in case["trees"]:
        root = M.copy(tree["root"])
        if case["src"] != "export":
            root["l"] = case.get("root_label", "VROOT")
        if novroot:
            root = root["c"][0]
            root["e"] = "--"
        out.append({"sid": tree["sid"], "root": root})
    return out


def tiger_novroot(case):
    return case["src"] == "tigerxml" and case.get("novroot") and all(len(t["root"]["c"]) == 1 and not M.is_tok(t["root"]["c"][0]) for t in case["trees"])


def write_source(path, fmt, trees, enc, v4, gz):
    if fmt == "export":
        text = CT.encode_export(trees, v4=v4)
    elif fmt == "brackets":
        text = "".join(CT.encode_brackets_tree(t["root"], lambda kind: " " if kind == "req" else "") + "\n" for t in trees)
    elif fmt == "discobrackets":
        text = CT.encode_discobrackets(trees)
    else:
        text = encode_tiger_plain(trees, {"utf-8": "utf-8", "latin-1": "iso-8859-1", "utf-16": "utf-16"}[enc])
    data = text.encode(PY_ENC[enc])
    if gz and int(gz) > 1:
        # several gzip members in one file (what `cat a.gz b.gz` or a block-wise compressor produces) are one gzip file
        cut = len(data) // 2
        with open(path, "wb") as stream:
            stream.write(gzip.compress(data[:cut]) + gzip.compress(data[cut:]))
        return
    with (gzip.open(path, "wb") if gz else open(path, "wb")) as stream:
        stream.write(data)


def encode_tiger_plain(trees, encoding):
    """like CT.encode_tigerxml, but the model's root is the graph root whatever its label"""
    return CT.encode_tigerxml(trees, encoding=encoding)


def decode_dest(prefix, fmt, path, enc, v4):
    if not os.path.exists(path):
        raise violation(prefix + "/destination-missing", "no file %s after a successful run (directory holds %r)" % (os.path.basename(path), sorted(os.listdir(os.path.dirname(path)))))
    with open(path, "rb") as stream:
        data = stream.read()
    try:
        if fmt == "tigerxml":
            return [(c["sid"], c["root"]) for c in CT.decode_tigerxml(data)]
        try:
            text = data.decode(PY_ENC[enc])
        except UnicodeDecodeError as exc:
            raise CT.DecodeError("destination is not %s: %s" % (enc, exc))
        if fmt == "export":
            return [(c["sid"], c["root"]) for c in CT.decode_export(text, v4=v4)]
        if fmt in ("brackets", "discobrackets"):
            return [(None, r) for r in CT.decode_brackets(text, disco=(fmt == "discobrackets"))]
        lines = text.split("\n")
        if lines[-1] != "":
            raise CT.DecodeError("terminals file does not end with a newline")
        out = []
        for line in lines[:-1]:
            if not line.endswith(" "):
                raise CT.DecodeError("terminals line %r" % line)
            out.append((None, {"l": "VROOT", "c": [{"w": w, "p": "X", "n": i + 1} for i, w in enumerate(line[:-1].split(" "))]}))
        return out
    except CT.DecodeError as exc:
        raise violation(prefix + "/destination-undecodable", str(exc))


def run_tool(args, sub):
    if sub:
        return cli.run_sub(args)
    return cli.run_inproc(args)


def convert(prefix, src, dest, sfmt, dfmt, senc, denc, sopts, dopts, sub):
    args = ["transform", src, dest, "--src-format", sfmt, "--dest-format", dfmt, "--src-enc", senc, "--dest-enc", denc]
    if sopts:
        args += ["--src-opts"] + sopts
    if dopts:
        args += ["--dest-opts"] + dopts
    res = run_tool(args, sub)
    if res.code != 0:
        raise violation(prefix + "/exit-status", "%s -> %s (%s -> %s, src-opts %r, dest-opts %r): exit %d: %s"
                        % (sfmt, dfmt, senc, denc, sopts, dopts, res.code, res.err.strip().split("\n")[-1][:300]))
    return res


def check(case):
    sfmt, dfmt = case["src"], case["dest"]
    senc, denc = case["src_enc"], case["dest_enc"]
    trees = source_models(case)
    first_id = case.get("firstid")
    src_opts = ["quiet"] + (["brackets_firstid:%d" % first_id] if (first_id is not None and sfmt in ("brackets", "discobrackets")) else [])
    if case.get("src_sep"):
        # a separator for the reader's gf_split is without effect when gf_split is not requested - also on the writer
        src_opts.append("gf_separator:" + case["src_sep"])
    counted = bool(case.get("continuous")) and sfmt in ("export", "tigerxml")
    if counted:
        src_opts.append("continuous")
    skipdisco = dfmt == "brackets" and "brackets_skipdisco" in case.get("dest_opts", [])
    v4 = case.get("v4", False)
    sub = case.get("sub", False)
    dopts = list(case.get("dest_opts", []))
    prefix = "C03/to-%s" % dfmt
    bprefix = "C03/to-%s-and-back-to-%s" % (dfmt, sfmt)
    tmpdir = tempfile.mkdtemp(prefix="c03_")
    try:
        name = "corpus." + sfmt + (".gz" if case.get("gz") else "")
        if case.get("dirmode"):
            srcdir = os.path.join(tmpdir, "indir")
            os.mkdir(srcdir)
            src = os.path.join(srcdir, name)
            write_source(src, sfmt, trees, senc, v4, case.get("gz"))
            dest = src + ".dest"
            convert(prefix, srcdir, os.path.join(tmpdir, "unused"), sfmt, dfmt, senc, denc, src_opts, dopts, sub)
        else:
            src = os.path.join(tmpdir, name)
            write_source(src, sfmt, trees, senc, v4, case.get("gz"))
            dest = os.path.join(tmpdir, "dest." + dfmt)
            convert(prefix, src, dest, sfmt, dfmt, senc, denc, src_opts, dopts, sub)
        dopt_set = set(dopts)
        out_v4 = "export_four" in dopt_set
        if skipdisco:
            # the bracket writer skips exactly the discontinuous trees when asked to
            trees = [t for t in trees if M.tree_gapdeg(t["root"]) == 0]
        memory = [sim_read(sfmt, t["root"], v4=v4) for t in trees]
        expected = [sim_write(dfmt, m, dopt_set) for m in memory]
        decoded = decode_dest(prefix, dfmt, dest, denc, out_v4)
        if len(decoded) != len(trees):
            raise violation(prefix + "/number-of-sentences", "%d sentences in the destination, %d in the source" % (len(decoded), len(trees)))
        for i, ((sid, got), exp, tree) in enumerate(zip(decoded, expected, trees)):
            if dfmt in ("export", "tigerxml"):
                want_sid = tree["sid"] if sfmt in ("export", "tigerxml") else i + (1 if "brackets_firstid:%s" % first_id not in src_opts else first_id)
                if counted:
                    want_sid = i + 1
                if sid != want_sid:
                    raise violation(prefix + "/sentence-id", "sentence %d written with id %r, expected %r" % (i + 1, sid, want_sid))
            if comparable(dfmt, got, out_v4) != comparable(dfmt, exp, out_v4):
                raise violation(prefix + "/content-lost-or-changed", "sentence %d: %s" % (i + 1, describe_diff(dfmt, got, exp, out_v4)))
        # the tool's own reader accepts its own output, with identical result
        if dfmt != "terminals":
            ropts = {"quiet": True}
            with contextlib.redirect_stdout(io.StringIO()), contextlib.redirect_stderr(io.StringIO()):
                own = call(prefix + "/own-reader", lambda: list(getattr(treeinput, dfmt)(dest, PY_ENC[denc], **ropts)))
            if len(own) != len(decoded):
                raise violation(prefix + "/own-reader-count", "own reader yields %d trees from its own output of %d" % (len(own), len(decoded)))
            for i, (tree, (sid, got)) in enumerate(zip(own, decoded)):
                try:
                    snap = M.snapshot(tree)[0]
                except M.Malformed as bad:
                    raise violation(prefix + "/own-reader-malformed:" + bad.reason, str(bad))
                want = sim_read(dfmt, got, v4=out_v4)
                fields = ("w", "p", "m", "e") if dfmt in ("brackets", "discobrackets") else ("w", "p", "lem", "m", "e")
                s2, w2 = dict(snap), dict(want)
                s2["e"] = w2["e"] = None
                if dfmt in ("brackets", "discobrackets") and "brackets_emptyroot" in dopt_set:
                    w2["l"] = "VROOT"
                if M.canon(s2, fields, ("l", "e")) != M.canon(w2, fields, ("l", "e")):
                    raise violation(prefix + "/own-reader-differs", "sentence %d read back differently from what the file encodes" % (i + 1))
        # A -> B -> C: a second conversion into a third format
        third = case.get("third")
        if dfmt != "terminals" and third and not (third == "brackets" and any(M.tree_gapdeg(t["root"]) > 0 for t in trees)):
            cprefix = "C03/to-%s-then-to-%s" % (dfmt, third)
            cfile = os.path.join(tmpdir, "third." + third)
            sthird = ["quiet"] + (["gf_split"] + (["gf_separator:#"] if "gf_separator:#" in dopt_set else []) if "gf" in dopt_set else [])
            copts = ["export_four"] if third == "export" else []
            convert(cprefix, dest, cfile, dfmt, third, denc, "utf-8", sthird, copts, sub)
            mem_b = [sim_read(dfmt, e, v4=out_v4, gf_split="gf" in dopt_set, sep=sep_of(dopt_set)) for e in expected]
            for m2 in mem_b:
                if dfmt in ("brackets", "discobrackets") and "brackets_emptyroot" in dopt_set:
                    m2["l"] = "VROOT"
            exp_c = [sim_write(third, m, set(copts)) for m in mem_b]
            dec_c = decode_dest(cprefix, third, cfile, "utf-8", third == "export")
            if len(dec_c) != len(trees):
                raise violation(cprefix + "/number-of-sentences", "%d vs %d" % (len(dec_c), len(trees)))
            for i, ((sid, got), exp) in enumerate(zip(dec_c, exp_c)):
                if comparable(third, got, third == "export") != comparable(third, exp, third == "export"):
                    raise violation(cprefix + "/content-lost-or-changed", "sentence %d: %s" % (i + 1, describe_diff(third, got, exp, third == "export")))
        # A -> B -> A
        if dfmt != "terminals" and case.get("back", True):
            back = os.path.join(tmpdir, "back." + sfmt)
            bopts = []
            sback = []
            if "gf" in dopt_set:
                sback.append("gf_split")
                if "gf_separator:#" in dopt_set:
                    sback.append("gf_separator:#")
            if sfmt == "export" and v4:
                bopts.append("export_four")
            if sfmt == "brackets" and any(M.tree_gapdeg(t["root"]) > 0 for t in trees):
                return True
            if sfmt in ("brackets", "discobrackets") and dfmt == "export":
                pass
            convert(bprefix, dest, back, dfmt, sfmt, denc, senc, ["quiet"] + sback, bopts, sub)
            mem2 = [sim_read(dfmt, e, v4=out_v4, gf_split="gf" in dopt_set, sep=sep_of(dopt_set)) for e in expected]
            for m2 in mem2:
                if dfmt in ("brackets", "discobrackets") and "brackets_emptyroot" in dopt_set:
                    m2["l"] = "VROOT"
            exp2 = [sim_write(sfmt, m, set(bopts)) for m in mem2]
            dec2 = decode_dest(bprefix, sfmt, back, senc, "export_four" in bopts)
            if len(dec2) != len(trees):
                raise violation(bprefix + "/number-of-sentences", "%d vs %d" % (len(dec2), len(trees)))
            for i, ((sid, got), exp) in enumerate(zip(dec2, exp2)):
                if comparable(sfmt, got, "export_four" in bopts) != comparable(sfmt, exp, "export_four" in bopts):
                    raise violation(bprefix + "/content-lost-or-changed",
                                    "sentence %d: %s" % (i + 1, describe_diff(sfmt, got, exp, "export_four" in bopts)))
                if sfmt in ("export", "tigerxml") and dfmt in ("export", "tigerxml") and sid != (i + 1 if counted else trees[i]["sid"]):
                    raise violation(bprefix + "/sentence-id", "%r vs %r" % (sid, trees[i]["sid"]))
    finally:
        shutil.rmtree(tmpdir, ignore_errors=True)
    return True


def describe_diff(fmt, got, exp, v4):
    if fmt == "terminals":
        return "words %r, expected %r" % ([t["w"] for t in M.toks(got)], [t["w"] for t in M.toks(exp)])
    gt, et = M.toks(got), M.toks(exp)
    if len(gt) != len(et):
        return "%d tokens, expected %d" % (len(gt), len(et))
    for g, e in zip(gt, et):
        for f in ("w", "p", "lem", "m", "e"):
            if f in e and g.get(f) != e.get(f):
                return "token %d field %s is %r, expected %r" % (e["n"], f, g.get(f), e.get(f))
    gl = sorted((n["l"], n.get("e"), tuple(M.nums(n))) for n in M.constituents(got))
    el = sorted((n["l"], n.get("e"), tuple(M.nums(n))) for n in M.constituents(exp))
    return "constituents %r, expected %r" % ([x for x in gl if x not in el][:3], [x for x in el if x not in gl][:3])


# ----------------------------------------------------------------------------------------------- generator

def words_for(sfmt, dfmt, encs):
    bracket_src = sfmt in ("brackets", "discobrackets")
    base = ["a", "b", "Haus", "x1", ",", ".", "&", "<tag>", "\"q\"", "it's", "ABCDEFG", "ABCDEFGH", "ABCDEFGHIJKLMNOP",
            "ABCDEFGHIJKLMNOPQRSTUVW", "ABCDEFGHIJKLMNOPQRSTUVWX", "Donaudampfschifffahrtsgesellschaftskapitän"[:33]]     # 23, 24, 33 characters
    if all(e != "latin-1" for e in encs):
        base += ["λ", "中", "\U0001F600"]
    base += ["ä", "Über", "é", "#1", "#42", "#1234"]      # only '#' + exactly three digits is a node reference in export
    if not bracket_src:
        base += ["(", ")", "a(b", "-LRB-", "[x]"]
    else:
        base += ["-LRB-", "-RRB-"]
    return st.sampled_from(base)


@st.composite
def conv_case(draw, max_tokens, max_sents, sub_fraction, srcs=SRC, dests=DEST):
    sfmt = draw(st.sampled_from(srcs))
    dfmt = draw(st.sampled_from(dests))
    senc = draw(st.sampled_from(["utf-8", "utf-8", "latin-1", "utf-16"]))
    denc = draw(st.sampled_from(["utf-8", "utf-8", "latin-1", "utf-16"]))
    skip = dfmt == "brackets" and sfmt != "brackets" and draw(st.integers(0, 2)) == 0
    disc = 0.5 if skip else (0.0 if "brackets" in (sfmt, dfmt) else 0.5)
    tree = S.tree_model(max_tokens=max_tokens, disc=disc, words=words_for(sfmt, dfmt, [senc, denc]), lemmas=st.sampled_from(["--", "haus", "sein", "ä", "abcdefghijklmnopqrstuvwxyz"]),
                        labels=st.sampled_from(["S", "NP", "VP", "X"]), pos=st.sampled_from(["NN", "VVFIN", "ART", "$,", "$."]),
                        edges=st.sampled_from(["HD", "SB", "--", "OA"]), morphs=st.sampled_from(["--", "Nom.Sg", "3.Sg", "Comp.Nom.Sg.Masc", "Pos.Nom.Sg.Masc.X"]), fields="full")
    trees = draw(S.corpus(tree, 1, max_sents, max_start=draw(st.sampled_from([5, 50, 5000, 99000]))))
    dopts = []
    if dfmt == "export" and draw(st.booleans()):
        dopts.append("export_four")
    if dfmt in ("brackets", "discobrackets", "export") and draw(st.integers(0, 3)) == 0:
        dopts.append("gf")
        if draw(st.booleans()):
            dopts.append("gf_terminals")
        if draw(st.integers(0, 2)) == 0:
            dopts.append("gf_separator:#")
    if dfmt in ("brackets", "discobrackets") and draw(st.integers(0, 3)) == 0:
        dopts.append("brackets_emptyroot")
    if skip:
        dopts.append("brackets_skipdisco")
    elif dfmt != "brackets" and draw(st.integers(0, 5)) == 0:
        dopts.append("brackets_skipdisco")      # an option of the bracket writer: without effect on the other writers
    return {"src": sfmt, "dest": dfmt, "src_enc": senc, "dest_enc": denc, "trees": trees, "v4": draw(st.booleans()),
            "gz": draw(st.sampled_from([0, 0, 0, 0, 1, 2])) if sfmt != "tigerxml" else 0, "dirmode": draw(st.integers(0, 5)) == 0, "dest_opts": dopts,
            "src_sep": draw(st.sampled_from([None, None, None, "+", "#"])),
            "sub": draw(st.floats(0, 1)) < sub_fraction, "back": True, "third": draw(st.sampled_from([None, None] + DEST)),
            "root_label": draw(st.sampled_from(["VROOT", "VROOT", "TOP", "S"])), "novroot": draw(st.integers(0, 2)) == 0,
            "firstid": draw(st.sampled_from([None, None, 0, 0, 7, 1000])), "continuous": draw(st.integers(0, 3)) == 0}


def classes_of(case):
    out = ["pair=%s>%s" % (case["src"], case["dest"]), "src-enc=" + case["src_enc"], "dest-enc=" + case["dest_enc"]]
    if case.get("third") and case["dest"] != "terminals":
        out.append("chain=%s>%s>%s" % (case["src"], case["dest"], case["third"]))
    if case.get("root_label", "VROOT") != "VROOT" and case["src"] != "export":
        out.append("root-label-not-VROOT")
    if tiger_novroot(case):
        out.append("tigerxml-source-without-VROOT")
    if case.get("continuous") and case["src"] in ("export", "tigerxml"):
        out.append("src-opt:continuous")
    if case.get("firstid") is not None and case["src"] in ("brackets", "discobrackets"):
        out.append("brackets_firstid=%d" % case["firstid"])
    for flag in ("gz", "dirmode", "sub"):
        if case.get(flag):
            out.append(flag)
    for opt in case["dest_opts"]:
        out.append("dest-opt:" + opt)
    return out


def trivial(case):
    text = "".join(t["w"] for tr in case["trees"] for t in M.toks(tr["root"]))
    return len(case["trees"]) == 1 and all(ord(c) < 128 for c in text) and case["src_enc"] == "utf-8" and case["dest_enc"] == "utf-8" \
        and not case["gz"] and case["src"] == case["dest"]


def smaller(case):
    out = [dict(case, trees=case["trees"][:i] + case["trees"][i + 1:]) for i in range(len(case["trees"])) if len(case["trees"]) > 1]
    for key, val in (("gz", False), ("dirmode", False), ("src_enc", "utf-8"), ("dest_enc", "utf-8"), ("third", None)):
        if case.get(key) != val:
            out.append(dict(case, **{key: val}))
    for opt in case["dest_opts"]:
        out.append(dict(case, dest_opts=[o for o in case["dest_opts"] if o != opt]))
    return out


def gen(ctx):
    quick = ctx.tier == "quick"

    def body(case):
        check(case)
        ctx.count(key=case, nontrivial=not trivial(case), classes=classes_of(case))
        if len(case["trees"]) >= 2 and case["src"] != case["dest"] and case["src_enc"] != case["dest_enc"]:
            ctx.sample({k: v for k, v in case.items() if k != "trees"}, cap=3)
    if ctx.shard < 4:
        # a few large corpora (several hundred kB uncompressed would be pointless; 260 sentences exceed the usual 8 kB blocks twice over)
        sfmt = SRC[ctx.shard]
        big = []
        for i in range(260):      # bracket files of about 20 kB: beyond the usual 8 kB buffers, tokens fall on every block boundary
            root = {"l": "VROOT", "e": "--", "lem": "--", "m": "--", "c": [
                {"l": "S", "e": "--", "lem": "--", "m": "--", "c": [{"w": "Wort%d" % i * (1 + i % 3), "p": "NN", "n": 1, "e": "HD", "lem": "l%d" % i, "m": "Nom.Sg"},
                                                                     {"w": "läuft", "p": "VVFIN", "n": 2, "e": "HD", "lem": "laufen", "m": "3.Sg"}]},
                {"w": ".", "p": "$.", "n": 3, "e": "--", "lem": "--", "m": "--"}]}
            big.append({"sid": 1000 + 3 * i, "root": root})
        for dfmt in DEST:
            case = {"src": sfmt, "dest": dfmt, "src_enc": "utf-8", "dest_enc": "utf-8", "trees": big, "v4": True, "gz": sfmt != "tigerxml",
                    "dirmode": False, "dest_opts": [], "sub": False, "back": True}
            try:
                ctx.run_case(body, case)
            except Violation as vio:
                vio = ctx.minimize(vio, lambda c: ctx._quiet(check, c), smaller, budget=25)
                ctx.record(vio)
    ctx.hyp(conv_case(7 if quick else 10, 4 if quick else 6, 0.12 if quick else 1.0), body, max_examples=110 if quick else 800, shrink=False, smaller=smaller)


UNITS = [Unit("conversions", gen, check, shards=(12, 16))]
