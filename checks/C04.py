"""C04 - structural transformations preserve the sentence and tree well-formedness (operation sequences)."""
from collections import Counter
from hypothesis import strategies as st

from vlib import model as M
from vlib import strategies as S
from vlib.runner import Unit, violation, call, Violation
from vlib.repo import T, transform
from checks.C14 import collapsed_model

RULE = ("Hypothesis operation sequences (length <= 8 quick / 12 thorough) over root_attach, negra_mark_heads, mark_heads_by_rules(negra|ptb), "
        "boyd_split, raising, add_topnode, punctuation_verylow/_root/_symetrify(relc), binarize(bare_bin_labels), collapse_unary_chains, "
        "uncollapse_unary_chains on punctuation-rich trees (<=8/12 tokens). A drawn operation whose documented prerequisite does not hold on "
        "the actual tree is skipped (counted). After every applied step: returned node is the root of a well-formed tree (raw walk), words "
        "unchanged, POS unchanged up to the documented '+' concatenation, label multiset changes exactly as documented. Non-trivial = >= 2 "
        "applied operations of which at least one changed an attachment; distinct by digest of (tree, operation list).")
ASSUMPTIONS = ["prerequisites: boyd_split/binarize need a head key on every non-root node and exactly one head child per constituent; raising needs split flags "
               "on every non-root node; uncollapse only directly after collapse or label-preserving steps; collapse not on a sentence that is one unary chain",
               "expected label multisets are computed on the raw snapshot taken before the step (set model)"]

OPS = ["root_attach", "negra_mark_heads", "mark_heads_negra", "mark_heads_ptb", "boyd_split", "raising", "add_topnode",
       "punctuation_verylow", "punctuation_root", "punctuation_symetrify", "punctuation_symetrify_relc", "binarize", "binarize_bare",
       "collapse_unary_chains", "uncollapse_unary_chains"]


def snap(prefix, tree):
    try:
        return M.snapshot(tree, flags=True)[0]
    except M.Malformed as bad:
        raise violation(prefix + "/malformed:" + bad.reason, str(bad))


def heads_ok(model):
    for node in M.preorder(model):
        if node is not model and "h" not in node:
            return False
        if not M.is_tok(node) and [c.get("h") for c in node["c"]].count(True) != 1:
            return False
    return True


def split_flags_ok(model):
    return all(("split" in n and "hb" in n) for n in M.preorder(model) if n is not model)


def one_chain(model):
    return all(len(n["c"]) == 1 for n in M.constituents(model))


def label_bag(model):
    return Counter(n["l"] for n in M.constituents(model))


def run_sequence(case, on_step=None):
    tree = M.build(case["tree"], T)
    cur = snap("C04/input", tree)
    words = [t["w"] for t in M.toks(cur)]
    pos = [t["p"] for t in M.toks(cur)]
    collapsed = False          # labels currently carry '+' from a collapse
    plus_clean = True          # no step since the collapse created labels that uncollapse must not split
    applied = []
    changed_attachment = False
    unsplit_bag = None         # label multiset before the last boyd_split (kept up to date over label-preserving steps)
    for op in case["ops"]:
        prefix = "C04/" + op
        params = {}
        fn = op
        if op in ("mark_heads_negra", "mark_heads_ptb"):
            fn, params = "mark_heads_by_rules", {"mark_heads_preset": op.split("_")[-1]}
        elif op == "punctuation_symetrify_relc":
            fn, params = "punctuation_symetrify", {"relc": "PRELS"}
        elif op == "binarize_bare":
            fn, params = "binarize", {"bare_bin_labels": True}
        # ---- prerequisites on the actual tree
        if fn in ("boyd_split", "binarize") and not heads_ok(cur):
            applied.append((op, "skipped"))
            continue
        if fn == "boyd_split" and any(n.get("split") for n in M.preorder(cur)):
            applied.append((op, "skipped"))  # splitting an already split tree is not a documented use
            continue
        if fn == "raising" and not split_flags_ok(cur):
            applied.append((op, "skipped"))
            continue
        if fn == "collapse_unary_chains" and (one_chain(cur) or collapsed):
            applied.append((op, "skipped"))
            continue
        if fn == "uncollapse_unary_chains" and not (collapsed and plus_clean):
            applied.append((op, "skipped"))
            continue
        if collapsed and fn in ("binarize", "add_topnode", "boyd_split", "mark_heads_by_rules"):
            applied.append((op, "skipped"))  # keep '+' labels interpretable for the multiset bookkeeping
            continue
        before = cur
        bag = label_bag(before)
        result = call(prefix, getattr(transform, fn), tree, **params)
        cur = snap(prefix, result)
        tree = result
        if fn in ("negra_mark_heads", "mark_heads_by_rules") and not heads_ok(cur):
            # the marker is what makes marker -> boyd_split / binarize a prerequisite-respecting sequence
            raise violation(prefix + "/heads-not-established", "after the head marker some constituent has no head child or several (labels %r)"
                            % (sorted(set(n["l"] for n in M.constituents(cur)))[:8],))
        if fn == "boyd_split" and not split_flags_ok(cur):
            # likewise boyd_split -> raising: every node carries the split / head-block flags raising reads
            raise violation(prefix + "/split-flags-not-established", "after boyd_split some node has no split or head-block flag")
        # ---- sentence
        if [t["w"] for t in M.toks(cur)] != words:
            raise violation(prefix + "/words-changed", "%r" % ([t["w"] for t in M.toks(cur)],))
        now_pos = [t["p"] for t in M.toks(cur)]
        if fn == "collapse_unary_chains":
            if any(not (n == o or n.endswith("+" + o)) for n, o in zip(now_pos, pos)):
                raise violation(prefix + "/pos-changed", "%r vs %r" % (now_pos, pos))
        elif fn == "uncollapse_unary_chains":
            if now_pos != pos:
                raise violation(prefix + "/pos-not-restored", "%r vs %r" % (now_pos, pos))
        elif not collapsed and now_pos != pos:
            raise violation(prefix + "/pos-changed", "%r vs %r" % (now_pos, pos))
        # ---- label multiset
        got = label_bag(cur)
        if fn == "add_topnode":
            exp = bag + Counter(["TOP"])
        elif fn == "boyd_split":
            exp = Counter()
            for node in M.constituents(before):
                exp[node["l"]] += len(M.blocks(M.nums(node)))
        elif fn == "raising":
            exp = bag - Counter(n["l"] for n in M.constituents(before) if n is not before and n.get("split") and not n.get("hb"))
            if unsplit_bag is not None and got != unsplit_bag:
                raise violation(prefix + "/not-one-node-per-constituent", "after boyd_split + raising the labels are %r, before splitting %r"
                                % (sorted(got.items()), sorted(unsplit_bag.items())))
        elif fn == "binarize":
            extra = got - bag
            if (bag - got) or any(not lab.startswith("@") for lab in extra):
                raise violation(prefix + "/labels", "lost %r, added %r" % (sorted((bag - got).items()), sorted(extra.items())))
            exp = got
        elif fn == "collapse_unary_chains":
            exp = label_bag(collapsed_model(before))
        elif fn == "uncollapse_unary_chains":
            exp = Counter()
            for node in M.preorder(before):
                parts = (node["p"] if M.is_tok(node) else node["l"]).split("+")
                for part in (parts[:-1] if M.is_tok(node) else parts):
                    exp[part] += 1
        else:
            exp = bag
        if got != exp:
            raise violation(prefix + "/label-multiset", "lost %r, unexpected %r" % (sorted((exp - got).items()), sorted((got - exp).items())))
        if fn == "add_topnode" and (cur["l"] != "TOP" or len(cur["c"]) != 1):
            raise violation(prefix + "/no-unary-top", "root is %r with %d children" % (cur["l"], len(cur["c"])))
        if result.data.get("sid") != case["tree"]["sid"]:
            raise violation(prefix + "/sid-lost", "%r" % (result.data.get("sid"),))
        # ---- bookkeeping
        if fn == "boyd_split":
            unsplit_bag = bag
        elif fn == "add_topnode" and unsplit_bag is not None:
            unsplit_bag = unsplit_bag + Counter(["TOP"])
        elif fn in ("binarize", "collapse_unary_chains", "uncollapse_unary_chains", "raising"):
            unsplit_bag = None
        if fn == "collapse_unary_chains":
            collapsed = any("+" in (n["p"] if M.is_tok(n) else n["l"]) for n in M.preorder(cur))
            plus_clean = True
        elif fn == "uncollapse_unary_chains":
            collapsed = False
        if M.parent_map(cur) != M.parent_map(before):
            changed_attachment = True
            applied.append((op, "changed"))
        else:
            applied.append((op, "same"))
    return applied, changed_attachment


def check(case):
    return run_sequence(case)


def word_strategy():
    return st.one_of(st.sampled_from(S.PUNCT_WORDS), st.sampled_from([",", ".", '"', "(", ")"]), st.sampled_from(["a", "b", "der", "x"]),
                     st.sampled_from(["a", "b"]))


CHAINS = [["negra_mark_heads", "boyd_split", "raising"], ["root_attach", "negra_mark_heads", "boyd_split", "raising"],
          ["mark_heads_negra", "binarize"], ["collapse_unary_chains", "uncollapse_unary_chains"],
          ["negra_mark_heads", "boyd_split", "punctuation_root", "raising"], ["negra_mark_heads", "binarize", "collapse_unary_chains", "uncollapse_unary_chains"]]


@st.composite
def sequence_case(draw, max_tokens, max_ops):
    tree = draw(S.tree_model(max_tokens=max_tokens, disc=0.6, words=word_strategy(), max_arity=4,
                             labels=st.sampled_from(["S", "NP", "VP", "PP", "X", "CO", "DL", "PRN", "INTJ", "AP"]), pos=st.sampled_from(["NN", "VVFIN", "PRELS", "$,", "ART"]),
                             edges=st.sampled_from(["HD", "NK", "SB", "--"])))
    ops = []
    while len(ops) < max_ops:
        kind = draw(st.integers(0, 9))
        if kind == 0 and ops:
            break
        if kind <= 3:
            ops.extend(draw(st.sampled_from(CHAINS)))
        else:
            ops.append(draw(st.sampled_from(OPS)))
    return {"tree": tree, "ops": ops[:max_ops]}


def gen(ctx):
    quick = ctx.tier == "quick"

    def body(case):
        applied, changed = check(case)
        done = [a for a in applied if a[1] != "skipped"]
        classes = ["applied=%d" % min(len(done), 6)]
        classes.extend("op:%s:%s" % a for a in set(applied))
        ctx.count(key=case, nontrivial=len(done) >= 2 and changed, classes=classes)
        if len(done) >= 4 and changed:
            ctx.sample({"ops": case["ops"], "applied": applied, "tree": case["tree"]["root"]}, cap=2)
    ctx.hyp(sequence_case(8 if quick else 12, 8 if quick else 12), body, max_examples=1200 if quick else 6000)


UNITS = [Unit("sequences", gen, check, shards=(4, 16))]


from vlib import clidiff
UNITS.append(clidiff.unit("C04"))
