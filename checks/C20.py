"""C20 - label parsing and formatting are mutually inverse.

Units:
  enum      exhaustive: every string up to length L over {A b 1 2 - = # ' *} x separator {-,#}:
            differential against a regex reference parser of the documented grammar, round trip,
            always_label/always_gf, emptying each component
  parts     Hypothesis: longer labels built from parts (expected parse known by construction), incl. the
            default literals EMPTY / --
  getlabel  Hypothesis: get_label = category + exactly the requested decorations
"""
import itertools
import re
from hypothesis import strategies as st

from vlib.runner import Unit, violation, call, Violation
from vlib.repo import T

ALPHABET = "Ab12-=#'*"
RULE = ("enum: all strings of length <= 6 (quick) / 7 (thorough) over {A b 1 2 - = # ' *}, each with separator '-' "
        "and '#': parse_label vs regex reference parser (category, function, gap index, co-index, head mark, "
        "is_trace), format(parse(s)) == s up to the documented default literals, always_label/always_gf, and "
        "emptying each of the five components; non-trivial = string contains a separator or marker character "
        "(distinct by construction: every string is enumerated once per separator); long: random strings of length 7..24, same oracle. parts/getlabel: Hypothesis "
        "labels built from parts and node decorations with all option subsets; non-trivial = at least one "
        "decoration present; distinct by digest.")
ASSUMPTIONS = ["reference parser in checks/C20.py encodes the grammar in parse_label's docstring: optional trailing ', then "
               "-digits (co-index), then =digits (gap index), then the first separator splits category and function "
               "when it is neither the first nor the last character",
               "emptying the function while always_gf is set is not checked (documentation is silent)",
               "indices are digit strings in the sense of the documented \\d+ (Unicode decimal digits); strings containing characters that str.isdigit() "
               "accepts but \\d does not (superscripts etc.) are skipped"]
EXHAUSTIVE_WHOLE = False


def refparse(text, sep):
    head = ""
    if text.endswith("'"):
        head, text = "'", text[:-1]
    co = ""
    match = re.search(r"-(\d+)\Z", text)
    if match:
        co, text = match.group(1), text[:match.start()]
    gap = ""
    match = re.search(r"=(\d+)\Z", text)
    if match:
        gap, text = match.group(1), text[:match.start()]
    gf = "--"
    idx = text.find(sep)
    if 0 < idx < len(text) - 1:
        text, gf = text[:idx], text[idx + 1:]
    if text == "":
        text = "EMPTY"
    return {"label": text, "gf": gf, "gapindex": gap, "coindex": co, "headmarker": head, "gf_separator": sep,
            "is_trace": text.startswith("*") and text.endswith("*")}


def refformat(parts, always_label=False, always_gf=False):
    out = parts["label"] if (parts["label"] != "EMPTY" or always_label) else ""
    if parts["gf"] != "" and (parts["gf"] != "--" or always_gf):
        out += parts["gf_separator"] + parts["gf"]
    if parts["gapindex"]:
        out += "=" + parts["gapindex"]
    if parts["coindex"]:
        out += "-" + parts["coindex"]
    if parts["headmarker"]:
        out += "'"
    return out


FIELDS = ("label", "gf", "gapindex", "coindex", "headmarker", "gf_separator", "is_trace")


def parse(text, sep, explicit=True):
    if explicit:
        return call("C20/parse_label", T.parse_label, text, gf_separator=sep)
    return call("C20/parse_label", T.parse_label, text)


def check_string(case):
    text, sep = case["s"], case["sep"]
    if any(ch.isdigit() != bool(re.match(r"\d", ch)) for ch in text if ord(ch) > 127):
        # characters such as superscript digits are digits for str.isdigit() but not for the documented \d+:
        # documentation and implementation disagree on them, neither reading is demanded
        return
    ref = refparse(text, sep)
    # what the very first caller does with its own result (emptying components, as format_label's documentation suggests)
    # must not reach any later caller
    scratch = parse(text, sep)
    for comp in ("label", "gf", "gapindex", "coindex", "headmarker"):
        setattr(scratch, comp, "")
    parsed = parse(text, sep)
    got = {f: getattr(parsed, f, None) for f in FIELDS}
    if ref["label"] == "*":
        # a lone asterisk: 'wrapped in asterisks' is ambiguous, either answer is accepted
        got["is_trace"] = ref["is_trace"]
    if got != ref:
        diff = sorted(f for f in FIELDS if got[f] != ref[f])
        kind = "C20/parse/gf_separator-not-honoured" if (sep != "-" and got["gf_separator"] != sep) else "C20/parse/differs-from-grammar"
        raise violation(kind, "parse_label(%r, gf_separator=%r) = %r, documented grammar gives %r (differs in %s)" % (text, sep, got, ref, "+".join(diff)))
    if sep == "-":
        dflt = parse(text, sep, explicit=False)
        if {f: getattr(dflt, f, None) for f in FIELDS} != {f: getattr(parsed, f, None) for f in FIELDS}:
            raise violation("C20/parse/default-separator", "parse_label(%r) without gf_separator differs from separator '-'" % text)
    # round trip (default literals are dropped unless requested)
    for always_label, always_gf in ((False, False), (True, False), (False, True), (True, True)):
        params = {}
        if always_label:
            params["always_label"] = True
        if always_gf:
            params["always_gf"] = True
        out = call("C20/format_label", T.format_label, parse(text, sep), **params)
        exp = refformat(ref, always_label, always_gf)
        if out != exp:
            raise violation("C20/format/roundtrip%s%s" % ("+always_label" if always_label else "", "+always_gf" if always_gf else ""),
                            "format_label(parse_label(%r, sep=%r), %r) = %r, expected %r" % (text, sep, params, out, exp))
    if ref["gf"] != "--" and ref["label"] != "EMPTY" and refformat(ref) != text:
        raise violation("C20/harness/reference-roundtrip", "reference does not round-trip %r" % text)
    # emptying one component removes exactly that component
    for comp in ("label", "gf", "gapindex", "coindex", "headmarker"):
        parsed = parse(text, sep)
        setattr(parsed, comp, "")
        out = call("C20/format_label", T.format_label, parsed)
        exp_parts = dict(ref)
        exp_parts[comp] = ""
        exp = refformat(exp_parts)
        if out != exp:
            raise violation("C20/format/emptied-" + comp, "parse_label(%r, sep=%r) with %s emptied formats to %r, expected %r"
                            % (text, sep, comp, out, exp))


def gen_enum(ctx):
    maxlen = 6 if ctx.tier == "quick" else 7
    # shard by first character (shard 0 also takes the empty string)
    firsts = [ALPHABET[i] for i in range(len(ALPHABET)) if i % ctx.nshards == ctx.shard]

    def cases():
        if ctx.shard == 0:
            yield ""
        for length in range(1, maxlen + 1):
            for first in firsts:
                for rest in itertools.product(ALPHABET, repeat=length - 1):
                    yield first + "".join(rest)

    def body(case):
        check_string(case)

    complete = True
    for text in cases():
        if ctx.time_up():
            ctx.inconclusive = True
            complete = False
            break
        nontrivial = any(c in "-=#'*" for c in text)
        for sep in ("-", "#"):
            case = {"s": text, "sep": sep}
            ctx.count(nontrivial=nontrivial, by_construction=True,
                      classes=["len=%d" % len(text)] if sep == "-" else ())
            try:
                ctx.run_case(body, case)
            except Violation as vio:
                ctx.record(vio)
        if len(text) == 5 and len(ctx.samples) < 2 and text.count("-") == 1 and "=" in text:
            ctx.sample({"s": text, "parsed_as": refparse(text, "-")})
    if complete:
        ctx.exhaustive = "all strings of length <= %d over %r x separators {-,#}" % (maxlen, ALPHABET)


# ---------------------------------------------------------------------- labels from parts

CAT_ALPHA = "ABCNPSVXabcz*$.,019äλ"
GF_ALPHA = "ABCHDSBJabc*$äλ"


@st.composite
def parts_case(draw):
    sep = draw(st.sampled_from(["-", "#"]))
    cat = draw(st.one_of(st.text(alphabet=CAT_ALPHA, min_size=1, max_size=6), st.sampled_from(["EMPTY", "*T*", "*", "*EXP*", "NP", "-NONE-"])))
    if cat == "-NONE-" or any(c in cat for c in "-=#'"):
        cat = "X"
    has_gf = draw(st.booleans())
    gf = draw(st.one_of(st.text(alphabet=GF_ALPHA, min_size=1, max_size=4), st.sampled_from(["--", "SBJ", "HD"]))) if has_gf else None
    gap = draw(st.one_of(st.just(""), st.text(alphabet="0123456789", min_size=1, max_size=3)))
    co = draw(st.one_of(st.just(""), st.text(alphabet="0123456789", min_size=1, max_size=3)))
    head = draw(st.sampled_from(["", "'"]))
    return {"sep": sep, "cat": cat, "gf": gf, "gap": gap, "co": co, "head": head}


def check_parts(case):
    sep, cat, gf = case["sep"], case["cat"], case["gf"]
    if gf == "--" and sep == "-":
        text = cat + "---"
    else:
        text = cat + (sep + gf if gf is not None else "")
    text += ("=" + case["gap"] if case["gap"] else "") + ("-" + case["co"] if case["co"] else "") + case["head"]
    exp = {"label": cat, "gf": gf if gf is not None else "--", "gapindex": case["gap"], "coindex": case["co"],
           "headmarker": case["head"], "gf_separator": sep, "is_trace": cat.startswith("*") and cat.endswith("*")}
    # a category ending in digits directly followed by nothing else cannot be confused; but '-digits' needs a guard
    parsed = parse(text, sep)
    got = {f: getattr(parsed, f, None) for f in FIELDS}
    if cat == "*":
        got["is_trace"] = exp["is_trace"]
    if got != exp:
        diff = sorted(f for f in FIELDS if got[f] != exp[f])
        kind = "C20/parse/gf_separator-not-honoured" if (sep != "-" and got["gf_separator"] != sep) else "C20/parse/parts-not-recovered"
        raise violation(kind, "label %r built from %r parsed as %r" % (text, case, got))
    check_string({"s": text, "sep": sep})
    return text


def gen_parts(ctx):
    def body(case):
        text = check_parts(case)
        decorations = sum(1 for k in ("gf", "gap", "co", "head") if case[k])
        ctx.count(key=case, nontrivial=decorations > 0, classes=["decorations=%d" % decorations, "sep=" + case["sep"]])
        if decorations >= 3:
            ctx.sample({"label": text, "parts": case})
    ctx.hyp(parts_case(), body, max_examples=3000 if ctx.tier == "quick" else 20000)


# ---------------------------------------------------------------------- get_label

OPTS = ["gf", "gf_terminals", "mark_heads_marking", "boyd_split_marking", "boyd_split_numbering"]


@st.composite
def getlabel_case(draw):
    opts = [o for o in OPTS if draw(st.booleans())]
    sep = draw(st.sampled_from([None, "-", "#", ":", 1]))
    return {"opts": opts, "sep": sep,
            "label": draw(st.text(alphabet=CAT_ALPHA + "-=", min_size=1, max_size=5)),
            "edge": draw(st.sampled_from(["HD", "--", "-", "SB", "-X", "O-A", "λ"])),
            "is_tok": draw(st.booleans()), "head": draw(st.booleans()), "split": draw(st.booleans()),
            "bn": draw(st.integers(1, 12))}


def check_getlabel(case):
    data = T.make_node_data()
    data["label"] = case["label"]
    data["edge"] = case["edge"]
    data["head"] = case["head"]
    data["split"] = case["split"]
    data["block_number"] = case["bn"]
    node = T.Tree(data)
    if case["is_tok"]:
        node.data["word"] = "w"
        node.data["num"] = 1
    else:
        kid = T.Tree(T.make_node_data())
        kid.data.update(word="w", label="X", num=1, edge="--")
        kid.parent = node
        node.children.append(kid)
    params = {o: True for o in case["opts"]}
    if case["sep"] is not None:
        params["gf_separator"] = case["sep"]
    got = call("C20/get_label", T.get_label, node, **params)
    sep = "-" if case["sep"] is None else str(case["sep"])
    exp = case["label"]
    if "gf" in params and not case["edge"].startswith("-") and (not case["is_tok"] or "gf_terminals" in params):
        exp += sep + case["edge"]
    if "mark_heads_marking" in params and case["head"]:
        exp += "'"
    accepted = []
    star = "*" if ("boyd_split_marking" in params and case["split"]) else ""
    if "boyd_split_numbering" in params and case["split"]:
        accepted = [exp + star + str(case["bn"]), exp + "*" + str(case["bn"])]
    else:
        accepted = [exp + star]
    if got not in accepted:
        raise violation("C20/get_label/decorations", "get_label(%r) = %r, expected one of %r" % (case, got, accepted))


def gen_getlabel(ctx):
    def body(case):
        check_getlabel(case)
        ctx.count(key=case, nontrivial=len(case["opts"]) > 0, classes=["opts=%d" % len(case["opts"])])
        if len(case["opts"]) >= 3:
            ctx.sample(case)
    ctx.hyp(getlabel_case(), body, max_examples=2000 if ctx.tier == "quick" else 10000)


UNITS = [Unit("enum", gen_enum, check_string, shards=(9, 9)),
         Unit("parts", gen_parts, check_parts, shards=(1, 4)),
         Unit("getlabel", gen_getlabel, check_getlabel, shards=(1, 2))]


def gen_long(ctx):
    """random longer strings over the same nine characters plus letters (length up to 24), same oracle as enum"""
    strategy = st.fixed_dictionaries({"s": st.text(alphabet=ALPHABET + "NPS-=-", min_size=7, max_size=24), "sep": st.sampled_from(["-", "#"])})

    def body(case):
        check_string(case)
        ctx.count(key=case, nontrivial=True, classes=["long:len>=%d" % (8 * (len(case["s"]) // 8))])
        if len(ctx.samples) < 1:
            ctx.sample({"s": case["s"], "parsed_as": refparse(case["s"], case["sep"])})
    ctx.hyp(strategy, body, max_examples=4000 if ctx.tier == "quick" else 40000)


UNITS.append(Unit("long", gen_long, check_string, shards=(1, 4)))


def gen_atheris(ctx):
    """coverage-guided campaign on parse_label/format_label, reference parser inside the target"""
    from vlib import fuzzdrv
    seeds = [] if ctx.shard % 2 == 0 else [b"\x00NP-SBJ=1-2'", b"\x01VP#HD-3", b"\x00*T*-1"]
    runs = 15000 if ctx.tier == "quick" else 1000000

    def to_case(data):
        text = "".join(ch for ch in data[1:].decode("utf-8", "ignore").replace("\x00", "") if not ch.isspace())
        return {"s": text, "sep": "#" if (data[:1] and data[0] & 1) else "-"}
    fuzzdrv.campaign(ctx, "label", runs, 32 if ctx.tier == "quick" else 96, seeds, to_case, check_string, "atheris-label")


UNITS.append(Unit("atheris_label", gen_atheris, check_string, shards=(2, 8)))
