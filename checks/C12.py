"""C12 - root_attach moves only root children, to the lowest node spanning the neighbours.

Domain: trees whose root has several children obtained by detaching random nodes (tokens and
constituents) of a random tree to the root - interleaved, inside gaps, at the sentence edges.
Oracle: set-based reference of the documented rule; result must equal it exactly (all fields).
"""
from hypothesis import strategies as st

from vlib import model as M
from vlib import strategies as S
from vlib.runner import Unit, violation, call, Violation
from vlib.repo import T, transform
import itertools
COUNTER = itertools.count()

RULE = ("Hypothesis: random tree (n<=10/14 tokens, discontinuous or not), then 0..5 random nodes are detached and "
        "hung under the root; root_attach result compared (all fields, parent of every node) with a set-based "
        "reference of the documented rule. Non-trivial = at least one root child is re-attached below the root; "
        "distinct by digest of the input tree.")
ASSUMPTIONS = ["the reference implementation in checks/C12.py encodes the rule documented in root_attach's docstring",
               "trees are built through trees.Tree directly, observation by raw walk of .children/.parent/.data"]


@st.composite
def rootish(draw, max_tokens):
    case = draw(S.tree_model(min_tokens=2, max_tokens=max_tokens, disc=0.5, words=st.sampled_from(["a", "b", ",", "."]),
                             labels=st.sampled_from(["S", "NP", "VP", "PP", "VROOT", "TOP"]),
                             max_root=3))
    root = case["root"]
    moves = draw(st.integers(0, 5))
    for _ in range(moves):
        cands = []
        stack = [root]
        while stack:
            cur = stack.pop()
            for child in cur.get("c", ()):
                if cur is not root and len(cur["c"]) >= 2:
                    cands.append((cur, child))
                stack.append(child)
        if not cands:
            break
        parent, child = cands[draw(st.integers(0, len(cands) - 1))]
        parent["c"] = [c for c in parent["c"] if c is not child]
        root["c"].insert(draw(st.integers(0, len(root["c"]))), child)
    if draw(st.integers(0, 3)) == 0:
        steps = st.one_of(st.just(["root_attach"]), st.tuples(st.just("insert"), st.integers(0, 20), st.sampled_from([",", "x", "."])).map(list),
                          st.tuples(st.just("delete"), st.integers(0, 20)).map(list))
        case["pre"] = draw(st.lists(steps, min_size=1, max_size=3))
    return case


@st.composite
def scattered(draw, max_tokens):
    """Root children built directly: the tokens 1..n are dealt out to 2..6 groups in any interleaving (crossing groups,
    groups inside the gaps of several others); a group is a bare token, a flat constituent, or a constituent with one
    inner constituent over some of its tokens."""
    n = draw(st.integers(3, max_tokens))
    k = draw(st.integers(2, min(6, n)))
    owner = [draw(st.integers(0, k - 1)) for _ in range(n)]
    words = st.sampled_from(["a", "b", ",", "."])

    def tok(i):
        return {"w": draw(words), "p": draw(st.sampled_from(["NN", "VB", "$,"])), "n": i + 1, "e": draw(st.sampled_from(["HD", "NK", "--"])), "lem": "--", "m": "--"}
    children = []
    for g in range(k):
        members = [tok(i) for i in range(n) if owner[i] == g]
        if not members:
            continue
        if len(members) == 1 and draw(st.booleans()):
            children.append(members[0])
            continue
        node = {"l": draw(st.sampled_from(["S", "NP", "VP", "PP", "VROOT"])), "e": "--", "lem": "--", "m": "--", "c": members}
        if len(members) >= 3 and draw(st.booleans()):
            picked = [m for m in members if draw(st.booleans())]
            if 1 <= len(picked) < len(members):
                inner = {"l": draw(st.sampled_from(["NP", "AP"])), "e": "HD", "lem": "--", "m": "--", "c": picked}
                node["c"] = [m for m in members if all(m is not q for q in picked)] + [inner]
        children.append(node)
    order = draw(st.permutations(list(range(len(children)))))
    return {"sid": draw(st.integers(1, 50)), "root": {"l": "VROOT", "e": "--", "lem": "--", "m": "--", "c": [children[i] for i in order]}}


def reference(root):
    """Set-based reference of the documented rule, on a copy of the model."""
    root = M.copy(root)
    parent = {}

    def link(node):
        for child in node.get("c", ()):
            parent[id(child)] = node
            link(child)
    link(root)
    tokens = {t["n"]: t for t in M.toks(root)}
    n = len(tokens)
    moved = 0
    for child in M.kids(root):
        span = M.nums(child)
        t_l = min(span) - 1
        t_r = max(span) + 1
        hi = max(span)
        siblings = M.kids(root)
        idx = [i for i, s in enumerate(siblings) if s is child][0]
        for sib in siblings[idx + 1:]:
            sspan = M.nums(sib)
            if min(sspan) < hi:
                continue
            if min(sspan) > hi + 1:
                break
            hi = max(sspan)
            t_r = hi + 1
        if t_l < 1 or t_r > n:
            continue
        # lowest common ancestor of the two neighbour tokens
        chain = []
        cur = tokens[t_l]
        while id(cur) in parent:
            cur = parent[id(cur)]
            chain.append(id(cur))
        cur = tokens[t_r]
        target = None
        while id(cur) in parent:
            cur = parent[id(cur)]
            if id(cur) in chain:
                target = cur
                break
        root["c"] = [c for c in root["c"] if c is not child]
        target["c"].append(child)
        parent[id(child)] = target
        if target is not root:
            moved += 1
    return root, moved


def apply_pre(tree, pre):
    """history on the same tree object: earlier root_attach calls and token edits (all through the repository's API)"""
    import contextlib
    import io
    import os
    import tempfile
    def snapshot(node):
        try:
            return M.snapshot(node)
        except M.Malformed as bad:
            raise violation("C12/pre/malformed:" + bad.reason, "while applying the history %r: %s" % (pre, bad))
    for step in pre:
        if step[0] == "root_attach":
            tree = call("C12/pre/root_attach", transform.root_attach, tree)
        elif step[0] == "insert":
            n = len(M.toks(snapshot(tree)[0]))
            idx = step[1] % (n + 1) + 1
            path = os.path.join(tempfile.gettempdir(), "c12_terms_%d_%d.txt" % (os.getpid(), next(COUNTER)))
            with open(path, "w") as stream:
                stream.write("%d\t%d\t%s\tPX\n" % (tree.data["sid"], idx, step[2]))
            try:
                with contextlib.redirect_stdout(io.StringIO()):
                    tree = call("C12/pre/insert_terminals", transform.insert_terminals, tree, terminalfile=path, quiet=True)
            finally:
                os.remove(path)
        elif step[0] == "delete":
            leaves = [n for n in snapshot(tree)[1].values() if not n.children]
            if len(leaves) > 2:
                leaf = sorted(leaves, key=lambda x: x.data["num"])[step[1] % len(leaves)]
                call("C12/pre/delete_terminal", T.delete_terminal, tree, leaf)
    return tree


def check(case):
    tree = M.build(case, T)
    root_model = case["root"]
    if case.get("pre"):
        tree = apply_pre(tree, case["pre"])
        try:
            root_model = M.strip_ids(M.snapshot(tree)[0])
        except M.Malformed as bad:
            raise violation("C12/pre/malformed:" + bad.reason, str(bad))
    result = call("C12/root_attach", transform.root_attach, tree)
    try:
        snap, _ = M.snapshot(result)
    except M.Malformed as bad:
        raise violation("C12/root_attach/malformed:" + bad.reason, str(bad))
    expected, moved = reference(root_model)
    fields = dict(tok_fields=("w", "p", "lem", "m", "e"), con_fields=("l", "e", "lem", "m"))
    if M.canon(snap, **fields) != M.canon(expected, **fields):
        got_p = M.parent_map(snap)
        exp_p = M.parent_map(expected)
        diff = [(k, exp_p.get(k), got_p.get(k)) for k in sorted(set(exp_p) | set(got_p), key=repr) if exp_p.get(k) != got_p.get(k)]
        raise violation("C12/root_attach/differs-from-reference", "first differing attachments (node, expected parent, got): %r" % (diff[:3],))
    if result.data.get("sid") != case["sid"]:
        raise violation("C12/root_attach/sid-changed", "%r" % (result.data.get("sid"),))
    return moved


def gen(ctx):
    quick = ctx.tier == "quick"

    def body(case):
        moved = check(case)
        root = case["root"]
        ctx.count(key=(case["root"], case.get("pre")), nontrivial=moved > 0,
                  classes=(["with-history"] if case.get("pre") else []) + ["moved=%d" % min(moved, 3), "rootchildren=%d" % min(len(root["c"]), 7),
                           "gapdeg=%d" % min(M.tree_gapdeg(root), 3)])
        if moved > 0:
            ctx.sample({"tree": case["root"], "reattached": moved})
    ctx.hyp(rootish(10 if quick else 14), body, max_examples=1500 if quick else 8000)


def gen_scattered(ctx):
    quick = ctx.tier == "quick"

    def body(case):
        moved = check(case)
        root = case["root"]
        crossing = sum(1 for a in root["c"] for b in root["c"] if a is not b and min(M.nums(a)) < min(M.nums(b)) < max(M.nums(a)) < max(M.nums(b)))
        ctx.count(key=case["root"], nontrivial=moved > 0, classes=["scattered:moved=%d" % min(moved, 3), "scattered:crossing-pairs=%d" % min(crossing, 3),
                                                                   "scattered:rootchildren=%d" % min(len(root["c"]), 6)])
        if moved > 1 and crossing > 1:
            ctx.sample({"tree": case["root"], "reattached": moved}, cap=2)
    ctx.hyp(scattered(9 if quick else 12), body, max_examples=1500 if quick else 8000)


def set_partitions(n):
    """all partitions of 1..n as lists of blocks (restricted growth strings)"""
    def rec(i, assign, top):
        if i == n:
            blocks = [[] for _ in range(top)]
            for pos, g in enumerate(assign):
                blocks[g].append(pos + 1)
            yield blocks
            return
        for g in range(top + 1):
            assign.append(g)
            for out in rec(i + 1, assign, max(top, g + 1)):
                yield out
            assign.pop()
    return rec(0, [], 0)


def gen_partitions(ctx):
    """EXHAUSTIVE: every way to deal the tokens 1..n out to root children (every set partition: all interleavings and
    crossings of flat root children), singletons once as bare tokens and once as unary constituents"""
    quick = ctx.tier == "quick"
    top = 9 if quick else 11
    index = 0
    complete = True
    for n in range(2, top + 1):
        for blocks in set_partitions(n):
            for unary in (False, True):
                index += 1
                if index % ctx.nshards != ctx.shard:
                    continue
                if len(blocks) == 1 and not unary:
                    pass
                if ctx.time_up():
                    ctx.inconclusive = True
                    complete = False
                    break
                children = []
                for bi, block in enumerate(blocks):
                    toks = [{"w": "abcdefghijklmnop"[i - 1], "p": "NN", "n": i, "e": "--", "lem": "--", "m": "--"} for i in block]
                    if len(toks) == 1 and not unary:
                        children.append(toks[0])
                    else:
                        children.append({"l": "N%d" % bi, "e": "--", "lem": "--", "m": "--", "c": toks})
                case = {"sid": 1, "root": {"l": "VROOT", "e": "--", "lem": "--", "m": "--", "c": children}}
                got = []
                try:
                    ctx.run_case(lambda c: got.append(check(c)), case)
                except Violation as vio:
                    ctx.record(vio)
                    continue
                moved = got[0] if got else 0
                ctx.count(nontrivial=moved > 0, by_construction=True, classes=["partitions:n=%d" % n, "partitions:moved=%d" % min(moved, 3)])
                if moved >= 3 and n >= 7:
                    ctx.sample({"blocks": blocks, "singletons_as_unary_nodes": unary, "reattached": moved}, cap=1)
    if complete:
        ctx.exhaustive = "all set partitions of 2..%d tokens into flat root children, singletons as tokens and as unary nodes" % top


def gen_long(ctx):
    """sentences of 260-300 tokens with unattached root children (single, consecutive, in gaps) near the end, in the
    middle and at the start: positions beyond 256 are positions like any other"""
    def tok(i, word="w"):
        return {"w": word, "p": "NN", "n": i, "e": "--", "lem": "--", "m": "--"}
    for total, loose in ((260, [257, 258]), (300, [3, 150, 151, 152, 299]), (270, [128, 129, 256, 257, 258, 259]), (262, [261])):
        inner = [tok(i) for i in range(1, total + 1) if i not in loose]
        # S over everything else, with an inner NP over a stretch in the middle
        np_part = [t for t in inner if 100 <= t["n"] <= 140]
        rest = [t for t in inner if not 100 <= t["n"] <= 140]
        s_node = {"l": "S", "e": "--", "lem": "--", "m": "--", "c": rest + ([{"l": "NP", "e": "--", "lem": "--", "m": "--", "c": np_part}] if np_part else [])}
        case = {"sid": 1, "root": {"l": "VROOT", "e": "--", "lem": "--", "m": "--", "c": [s_node] + [tok(i, ",") for i in loose]}}
        got = []
        try:
            ctx.run_case(lambda c: got.append(check(c)), case)
        except Violation as vio:
            ctx.record(vio)
        ctx.count(key=(total, tuple(loose)), nontrivial=True, classes=["long:tokens=%d" % total])
        ctx.sample({"tokens": total, "unattached": loose, "reattached": got[0] if got else None}, cap=2)


UNITS = [Unit("root_attach_vs_reference", gen, check, shards=(4, 16)),
         Unit("long_sentences", gen_long, check, shards=(1, 1)),
         Unit("partitions_enum", gen_partitions, check, shards=(4, 16)),
         Unit("scattered_root_children", gen_scattered, check, shards=(4, 16))]


from vlib import clidiff
UNITS.append(clidiff.unit("C12"))
