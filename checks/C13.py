"""C13 - punctuation re-attachment puts punctuation where documented, moves nothing else."""
from hypothesis import strategies as st

from vlib import model as M
from vlib import strategies as S
from vlib.runner import Unit, violation, call, Violation
from vlib.repo import T, transform

PUNCT = set(S.PUNCT_WORDS)
PAIR = set(S.PAIR_WORDS)

RULE = ("Hypothesis: punctuation-rich trees (<=9/13 tokens; ~45% of the tokens drawn from the punctuation inventory, consecutive "
        "punctuation, punctuation-only constituents, unary nodes over punctuation, discontinuous or not), parameter relc with a "
        "designated POS. Each of punctuation_verylow / _root / _symetrify is applied to a fresh copy; oracle = the stated final-state "
        "post-condition + 'the set of nodes whose parent changed contains only the permitted punctuation tokens' + the result is a "
        "well-formed tree with the same sentence. Non-trivial = at least one token moved; distinct by digest of (transformation, tree).")
ASSUMPTIONS = ["'constituent consisting only of punctuation' = all its direct children are punctuation tokens",
               "punctuation inventories are copied into vlib/strategies.py from the documented constants (trees.PUNCT / PAIRPUNCT)"]

# The oracle uses its own copy of the documented inventories (vlib/strategies.py).  If the repository's constants drift,
# the checks keep judging by the documented ones: a removed symbol shows up as a violation, an added one is never generated.


def word_strategy():
    return st.one_of(st.sampled_from(sorted(PUNCT)), st.sampled_from([",", ".", '"', "(", ")", "''", "``"]),
                     st.sampled_from(["a", "b", "c", "der", "x"]), st.sampled_from(["a", "b", "c"]))


def trees_strategy(max_tokens):
    return S.tree_model(max_tokens=max_tokens, disc=0.3, words=word_strategy(),
                        pos=st.sampled_from(["NN", "VB", "PRELS", "$,", "$(", "PREL", "S", "N"]), max_arity=4)   # incl. tags that are parts of other tags


def run(case):
    """Apply the transformation named in the case; returns (snapshot, moved model nodes, index)."""
    name = case["op"]
    index = {}
    tree = M.build(case["tree"], T, index)
    root = case["tree"]["root"]
    if case.get("pre"):
        # history on the same tree object: other re-attachments and token edits first; the checked operation is then
        # judged against the tree as it is at that moment
        from checks.C12 import apply_pre
        for step in case["pre"]:
            if step[0] in OPS:
                tree = call("C13/pre/" + step[0], getattr(transform, step[0]), tree)
            else:
                tree = apply_pre(tree, [step])
        try:
            root, seen = M.snapshot(tree)
        except M.Malformed as bad:
            raise violation("C13/pre/malformed:" + bad.reason, str(bad))
        index = {id(n): seen[n["_id"]] for n in M.preorder(root)}
        case = dict(case, tree={"sid": case["tree"]["sid"], "root": root})
    nodes = list(M.preorder(root))
    rnode = {id(n): index[id(n)] for n in nodes}
    orig_parent = {id(n): rnode[id(n)].parent for n in nodes}
    params = {}
    if case.get("relc"):
        params["relc"] = case["relc"]
    result = call("C13/" + name, getattr(transform, name), tree, **params)
    if result is not tree:
        raise violation("C13/%s/returned-other-node" % name, "did not return the root it was given")
    try:
        snap, seen = M.snapshot(result)
    except M.Malformed as bad:
        raise violation("C13/%s/malformed:%s" % (name, bad.reason), str(bad))
    if set(seen) != set(id(r) for r in rnode.values()):
        raise violation("C13/%s/nodes-lost-or-added" % name, "%d nodes before, %d after" % (len(rnode), len(seen)))
    if M.sentence(snap) != M.sentence(root):
        raise violation("C13/%s/sentence-changed" % name, "%r" % (M.sentence(snap),))
    moved = [n for n in nodes if rnode[id(n)].parent is not orig_parent[id(n)]]
    return result, rnode, nodes, moved, root


def check(case):
    name = case["op"]
    result, rnode, nodes, moved, root = run(case)
    toks = M.toks(root)
    new_parent = {id(n): rnode[id(n)].parent for n in nodes}

    def only_punct_children(rparent):
        return all(len(c.children) == 0 and c.data.get("word") in PUNCT for c in rparent.children)

    if name == "punctuation_verylow":
        for node in moved:
            if not (M.is_tok(node) and node["w"] in PUNCT and node["n"] > 1):
                raise violation("C13/verylow/moved-something-else", "%r changed its parent" % (node.get("w", node.get("l")),))
        for i, tok in enumerate(toks):
            if i == 0 or tok["w"] not in PUNCT:
                continue
            par = new_parent[id(tok)]
            if par is new_parent[id(toks[i - 1])] or only_punct_children(par):
                continue
            raise violation("C13/verylow/postcondition", "token %d %r is neither a sister of its left neighbour nor in a punctuation-only constituent" % (tok["n"], tok["w"]))
    elif name == "punctuation_root":
        for node in moved:
            if not (M.is_tok(node) and node["w"] in PUNCT):
                raise violation("C13/root/moved-something-else", "%r changed its parent" % (node.get("w", node.get("l")),))
        for tok in toks:
            if tok["w"] not in PUNCT:
                continue
            par = new_parent[id(tok)]
            if par is result or len(par.children) == 1:
                continue
            raise violation("C13/root/postcondition", "token %d %r is neither under the root nor an only child" % (tok["n"], tok["w"]))
    elif name == "punctuation_symetrify":
        relc = case.get("relc")
        for node in moved:
            if not (M.is_tok(node) and node["w"] in PAIR):
                raise violation("C13/symetrify/moved-something-else", "%r changed its parent" % (node.get("w", node.get("l")),))
            par = new_parent[id(node)]
            ok = False
            for sister in par.children:
                if sister is rnode[id(node)] or sister.children:
                    continue
                if sister.data.get("word") in PAIR:
                    ok = True
                num = sister.data.get("num")
                if relc and num < len(toks) and toks[num]["p"] == relc:
                    ok = True
            if not ok:
                raise violation("C13/symetrify/target-without-partner", "token %d %r moved into a constituent without a paired-punctuation sister" % (node["n"], node["w"]))
    else:
        raise AssertionError(name)
    return len(moved)


OPS = ["punctuation_verylow", "punctuation_root", "punctuation_symetrify"]


def gen(ctx):
    quick = ctx.tier == "quick"
    steps = st.one_of(st.sampled_from(OPS).map(lambda o: [o]), st.tuples(st.just("insert"), st.integers(0, 20), st.sampled_from([",", "(", '"', "x"])).map(list),
                      st.tuples(st.just("delete"), st.integers(0, 20)).map(list))
    strategy = st.fixed_dictionaries({"op": st.sampled_from(OPS), "tree": trees_strategy(9 if quick else 13),
                                      "relc": st.sampled_from([None, None, "PRELS", "PRELS", "NN"]),
                                      "pre": st.one_of(st.just([]), st.just([]), st.just([]), st.lists(steps, min_size=1, max_size=3))})

    def body(case):
        moved = check(case)
        root = case["tree"]["root"]
        classes = [case["op"] + (":moved" if moved else ":unmoved")] + (["with-history"] if case["pre"] else [])
        for node in M.constituents(root):
            if node is not root and all(M.is_tok(c) and c["w"] in PUNCT for c in node["c"]):
                classes.append("has-punct-only-constituent:%d" % min(len(node["c"]), 3))
                break
        if case["relc"] and case["op"] == "punctuation_symetrify":
            classes.append("relc")
        ctx.count(key=case, nontrivial=moved > 0, classes=classes)
        if moved >= 2:
            ctx.sample(case, cap=3)
    ctx.hyp(strategy, body, max_examples=2000 if quick else 10000)


UNITS = [Unit("reattach", gen, check, shards=(4, 16))]


from vlib import clidiff
UNITS.append(clidiff.unit("C13"))
