"""C10 - transition sequences are sound oracles: replaying them rebuilds the tree."""
import contextlib
import io
import os
import shutil
import tempfile
from hypothesis import strategies as st

from vlib import model as M
from vlib import strategies as S
from vlib import cli
from vlib import codecs_tree as CT
from vlib.runner import Unit, violation, call, Violation
from vlib.repo import T, transform, transitions, transitionoutput
from checks.C15 import negra_expect

RULE = ("Hypothesis head-marked trees (<=9/14 tokens): binary trees generated directly (unary nodes at the root, in the middle and above tokens, "
        "one-token sentences) or obtained through transform.binarize; continuous for topdown/inorder (inorder: arity <= 5), discontinuous for gap. "
        "Three hand-written automata that see only the sentence and the action strings replay the emitted sequence; the single remaining item must "
        "equal the input tree (labels, dominance, unary nodes, root, head sides on binary nodes). The written line `sentence ||| transitions` "
        "(words or POS) is re-parsed and replayed too (API writer and `treetools transitions` subprocess on export files from the independent "
        "encoder). Non-trivial = a unary node, a GAP action, or two consecutive GAPs; distinct by digest of (system, tree).")
ASSUMPTIONS = ["conventions pinned by the golden tests are accepted as parameters of the replayers: top-down sequences may be read bottom-up over the sentence "
               "from its end (as emitted) or as a plain pre-order from its start; the gap automaton may re-stack the deque in either order",
               "head side LEFT means the item taken from the stack is the head, RIGHT the item taken from the deque/top"]


# ----------------------------------------------------------------------------------------------- replayers

class ReplayError(Exception):
    pass


def tok_item(num):
    return {"tok": num}


def node_item(label, children, head=None):
    return {"label": label, "children": children, "head": head}


def item_to_model(item, sentence):
    """-> canonical comparison form: tokens by number; head flags only on children of binary nodes"""
    if "tok" in item:
        word, pos = sentence[item["tok"] - 1]
        return ("T", item["tok"], word, pos)
    kids = [item_to_model(c, sentence) for c in item["children"]]
    flags = None
    if len(kids) == 2 and item["head"] is not None:
        flags = item["head"]  # index of head child among item["children"]
    order = sorted(range(len(kids)), key=lambda i: first_tok(item["children"][i]))
    head_tok = first_tok(item["children"][flags]) if flags is not None else None
    return ("N", item["label"], head_tok, tuple(kids[i] for i in order))


def first_tok(item):
    if "tok" in item:
        return item["tok"]
    return min(first_tok(c) for c in item["children"])


def model_form(node, with_heads):
    if M.is_tok(node):
        return ("T", node["n"], node["w"], node["p"])
    kids = M.kids(node)
    head_tok = None
    if with_heads and len(kids) == 2:
        heads = [k for k in kids if k.get("h")]
        head_tok = M.first(heads[0]) if len(heads) == 1 else None
    return ("N", node["l"], head_tok, tuple(model_form(k, with_heads) for k in kids))


def replay_inorder(n, actions):
    stack = []
    nxt = 1
    for act in actions:
        if act == "SHIFT":
            if nxt > n:
                raise ReplayError("SHIFT on empty buffer")
            stack.append(tok_item(nxt))
            nxt += 1
        elif act.startswith("PJ-"):
            if not stack:
                raise ReplayError("PJ on empty stack")
            stack.append({"open": act[3:]})
        elif act == "REDUCE":
            rest = []
            while stack and "open" not in stack[-1]:
                rest.append(stack.pop())
            if not stack:
                raise ReplayError("REDUCE without open nonterminal")
            label = stack.pop()["open"]
            if not stack:
                raise ReplayError("projected nonterminal without first child")
            first = stack.pop()
            if "open" in first:
                raise ReplayError("projected nonterminal directly above another")
            stack.append(node_item(label, [first] + rest[::-1]))
        else:
            raise ReplayError("unknown action %r" % act)
    if nxt != n + 1:
        raise ReplayError("%d tokens not consumed" % (n + 1 - nxt))
    if len(stack) != 1 or "open" in stack[0]:
        raise ReplayError("%d items left" % len(stack))
    return stack[0]


def side_index(side):
    if side == "LEFT":
        return 0
    if side == "RIGHT":
        return 1
    raise ReplayError("unknown head side %r" % side)


def replay_topdown_bottomup(n, actions, from_end):
    """shift-reduce reading of the sequence; from_end: SHIFT takes the last unread token and the item on top of the
    stack is the LEFT child; otherwise SHIFT takes the first unread token and the top item is the RIGHT child."""
    stack = []
    order = list(range(n, 0, -1)) if from_end else list(range(1, n + 1))
    for act in actions:
        if act == "SHIFT":
            if not order:
                raise ReplayError("SHIFT on empty buffer")
            stack.append(tok_item(order.pop(0)))
        elif act.startswith("UNARY-"):
            if not stack:
                raise ReplayError("UNARY on empty stack")
            stack.append(node_item(act[6:], [stack.pop()]))
        elif act.startswith("BINARY-"):
            rest = act[7:]
            side, _, label = rest.partition("-")
            if len(stack) < 2:
                raise ReplayError("BINARY with fewer than two items")
            top = stack.pop()
            below = stack.pop()
            left, right = (top, below) if from_end else (below, top)
            stack.append(node_item(label, [left, right], side_index(side)))
        else:
            raise ReplayError("unknown action %r" % act)
    if order:
        raise ReplayError("%d tokens not consumed" % len(order))
    if len(stack) != 1:
        raise ReplayError("%d items left" % len(stack))
    return stack[0]


def replay_topdown_preorder(n, actions):
    """the sequence read as a pre-order, sentence from its start"""
    pos = [0]
    nxt = [1]

    def parse():
        if pos[0] >= len(actions):
            raise ReplayError("sequence too short")
        act = actions[pos[0]]
        pos[0] += 1
        if act == "SHIFT":
            if nxt[0] > n:
                raise ReplayError("SHIFT on empty buffer")
            nxt[0] += 1
            return tok_item(nxt[0] - 1)
        if act.startswith("UNARY-"):
            return node_item(act[6:], [parse()])
        if act.startswith("BINARY-"):
            side, _, label = act[7:].partition("-")
            left = parse()
            right = parse()
            return node_item(label, [left, right], side_index(side))
        raise ReplayError("unknown action %r" % act)
    item = parse()
    if pos[0] != len(actions) or nxt[0] != n + 1:
        raise ReplayError("sequence or sentence not consumed")
    return item


def replay_gap(n, actions, reverse_restack):
    s, d = [], []      # index 0 = top
    nxt = 1

    def restack():
        moved = list(d)
        del d[:]
        if reverse_restack:
            for item in moved:          # d[0] first: ends up below d[1]
                s.insert(0, item)
        else:
            for item in reversed(moved):
                s.insert(0, item)
    for act in actions:
        if act == "SHIFT":
            if nxt > n:
                raise ReplayError("SHIFT on empty buffer")
            restack()
            d.insert(0, tok_item(nxt))
            nxt += 1
        elif act == "GAP":
            if not s or not d:
                raise ReplayError("GAP with empty stack or deque")
            d.append(s.pop(0))
        elif act.startswith("R-"):
            side, _, label = act[2:].partition("-")
            if not s or not d:
                raise ReplayError("REDUCE with empty stack or deque")
            left = s.pop(0)
            right = d.pop(0)
            node = node_item(label, [left, right], side_index(side))
            restack()
            d.insert(0, node)
        elif act.startswith("UNARY-"):
            if not d:
                raise ReplayError("UNARY on empty deque")
            d[0] = node_item(act[6:], [d[0]])
        else:
            raise ReplayError("unknown action %r" % act)
    if nxt != n + 1:
        raise ReplayError("%d tokens not consumed" % (n + 1 - nxt))
    if s or len(d) != 1:
        raise ReplayError("%d items left on the stack, %d in the deque" % (len(s), len(d)))
    return d[0]


def replays(system, n, actions):
    """-> list of (convention name, item or ReplayError)"""
    out = []
    if system == "inorder":
        convs = [("standard", lambda: replay_inorder(n, actions))]
    elif system == "topdown":
        convs = [("bottom-up-from-end", lambda: replay_topdown_bottomup(n, actions, True)),
                 ("pre-order-from-start", lambda: replay_topdown_preorder(n, actions)),
                 ("bottom-up-from-start", lambda: replay_topdown_bottomup(n, actions, False))]
    else:
        convs = [("restack-reversed", lambda: replay_gap(n, actions, True)),
                 ("restack-in-order", lambda: replay_gap(n, actions, False))]
    for name, fn in convs:
        try:
            out.append((name, fn()))
        except ReplayError as err:
            out.append((name, err))
    return out


def judge(prefix, system, sentence, actions, want):
    n = len(sentence)
    problems = []
    for name, res in replays(system, n, actions):
        if isinstance(res, ReplayError):
            problems.append("%s: %s" % (name, res))
            continue
        got = item_to_model(res, sentence)
        if got == want:
            return name
        problems.append("%s: rebuilds a different tree" % name)
    kind = "/does-not-replay" if all("different tree" not in p for p in problems) else "/replays-to-different-tree"
    raise violation(prefix + kind, "%s over %d tokens: %s; actions %r" % (system, n, "; ".join(problems), actions))


# ----------------------------------------------------------------------------------------------- checks

def quiet_call(prefix, fn, *args, **kw):
    with contextlib.redirect_stderr(io.StringIO()), contextlib.redirect_stdout(io.StringIO()):
        return call(prefix, fn, *args, **kw)


def prepare(case):
    """-> repository tree after the optional binarize, and the model of that tree"""
    tree = M.build(case["tree"], T)
    if case.get("pre_inorder") and M.tree_gapdeg(case["tree"]["root"]) == 0:
        # history on the same objects: an extraction before the tree is restructured must not influence later ones
        quiet_call("C10/inorder", transitions.inorder, tree)
    if case.get("binarize"):
        tree = quiet_call("C10/binarize", transform.binarize, tree)
    try:
        model = M.snapshot(tree, flags=True)[0]
    except M.Malformed as bad:
        raise violation("C10/input-malformed:" + bad.reason, str(bad))
    return tree, model


def check_api(case):
    system = case["system"]
    tree, model = prepare(case)
    prefix = "C10/" + system
    sentence, trans = quiet_call(prefix, getattr(transitions, system), tree)
    exp_sentence = [(t["w"], t["p"]) for t in M.toks(model)]
    if [tuple(x) for x in sentence] != exp_sentence:
        raise violation(prefix + "/sentence", "returned %r, tokens are %r" % (sentence, exp_sentence))
    actions = [str(t) for t in trans]
    want = model_form(model, with_heads=(system != "inorder"))
    judge(prefix, system, exp_sentence, actions, want)
    # extracting again from the same tree gives the same answer (the first extraction must not have consumed anything)
    sentence2, trans2 = quiet_call(prefix, getattr(transitions, system), tree)
    if [tuple(x) for x in sentence2] != exp_sentence or [str(t) for t in trans2] != actions:
        raise violation(prefix + "/second-extraction-differs", "second call on the same tree gives %r / %r, first gave %r" % (sentence2, [str(t) for t in trans2], actions))
    # the written file
    encodable = all(ord(c) < 256 for pair in exp_sentence for item in pair for c in item)
    for use_pos, enc, copies in ((False, "utf-8", 1), (True, "utf-8", 2), (False, "utf-16", 2)) + (((True, "latin-1", 2),) if encodable else ()):
        dest = os.path.join(tempfile.gettempdir(), "c10_%d.trans" % os.getpid())
        params = {"pos": True} if use_pos else {}
        quiet_call(prefix + "/plain", transitionoutput.plain, [(sentence, trans)] * copies, dest, enc, **params)
        with open(dest, "rb") as stream:
            data = stream.read()
        os.remove(dest)
        try:
            lines = data.decode(enc).split("\n")
        except UnicodeDecodeError as exc:
            raise violation(prefix + "/plain/encoding", "file written with %s does not decode: %s" % (enc, exc))
        if len(lines) != copies + 1 or lines[-1] != "":
            raise violation(prefix + "/plain/not-one-line-per-tree", "%r" % (lines,))
        for line in lines[:-1]:
            check_line(prefix + "/plain", system, line, exp_sentence, want, use_pos)
    return model, actions


def check_line(prefix, system, line, exp_sentence, want, use_pos):
    left, sep, right = line.partition(" ||| ")
    if not sep:
        raise violation(prefix + "/line-format", "%r" % line)
    exp_words = [p if use_pos else w for (w, p) in exp_sentence]
    if left.split(" ") != exp_words:
        raise violation(prefix + "/line-sentence", "%r vs %r" % (left, exp_words))
    judge(prefix, system, exp_sentence, right.split(" "), want)


def check_cli(case):
    """case: {"system", "trees": [cases], "pos": bool}; export file -> `treetools transitions`"""
    system = case["system"]
    prefix = "C10/cli-" + system
    tmpdir = tempfile.mkdtemp(prefix="c10_")
    try:
        src = os.path.join(tmpdir, "in.export")
        dest = os.path.join(tmpdir, "out.trans")
        with open(src, "w", encoding="utf-8") as stream:
            stream.write(CT.encode_export(case["trees"]))
        args = ["transitions", src, dest, system, "--src-format", "export"]
        trans = (["add_topnode"] if case.get("topnode") else []) + (["negra_mark_heads"] if system != "inorder" else [])
        if trans:
            args += ["--transform"] + trans
        if case.get("pos"):
            args += ["--dest-opts", "pos"]
        res = (cli.run_inproc if case.get("inproc") else cli.run_sub)(args)
        if res.code != 0:
            raise violation(prefix + "/exit-status", "exit %d: %s" % (res.code, res.err[-500:]))
        with open(dest, encoding="utf-8") as stream:
            lines = stream.read().split("\n")
    finally:
        shutil.rmtree(tmpdir, ignore_errors=True)
    if lines[-1] != "" or len(lines) - 1 != len(case["trees"]):
        raise violation(prefix + "/not-one-line-per-tree", "%d lines for %d trees" % (len(lines) - 1, len(case["trees"])))
    for tree, line in zip(case["trees"], lines):
        root = M.copy(tree["root"])
        if case.get("topnode"):
            root = {"l": "TOP", "e": "--", "c": [root]}      # a transformation that returns a new root
        if system != "inorder":
            for node in M.constituents(root):
                kids = M.kids(node)
                pick = negra_expect(node)
                for i, child in enumerate(kids):
                    child["h"] = (i == pick)
        want = model_form(root, with_heads=(system != "inorder"))
        check_line(prefix, system, line, [(t["w"], t["p"]) for t in M.toks(root)], want, bool(case.get("pos")))


# ----------------------------------------------------------------------------------------------- generators

WORDS = st.sampled_from(["a", "b", "c", "der", "Haus", ",", "x1", "ä"])


@st.composite
def api_case(draw, max_tokens):
    system = draw(st.sampled_from(["topdown", "inorder", "gap", "gap"]))
    via_binarize = system != "inorder" and draw(st.integers(0, 2)) == 0
    arity = 5 if (system == "inorder" or via_binarize) else 2
    disc = 0.8 if system == "gap" else 0.0
    tree = draw(S.tree_model(max_tokens=max_tokens, disc=disc, max_arity=arity, max_root=(None if arity > 2 else 2), words=WORDS,
                             labels=st.sampled_from(["S", "NP", "VP", "X", "VPinf", "Srel", "Größe", "@S"]), pos=st.sampled_from(["NN", "VB", "ART", "@"])))
    for node in M.constituents(tree["root"]):
        pick = draw(st.integers(0, len(node["c"]) - 1))
        for i, child in enumerate(node["c"]):
            child["h"] = (i == pick)
    tree["root"]["h"] = False
    return {"system": system, "tree": tree, "binarize": via_binarize, "pre_inorder": draw(st.integers(0, 3)) == 0}


def classes_of(model, actions, system):
    out = ["system=" + system]
    if any(len(n["c"]) == 1 for n in M.constituents(model)):
        out.append("has-unary")
    if len(model["c"]) == 1:
        out.append("unary-root")
    if len(M.toks(model)) == 1:
        out.append("one-token")
    if "GAP" in actions:
        out.append("has-GAP")
    if any(a == b == "GAP" for a, b in zip(actions, actions[1:])):
        out.append("consecutive-GAPs")
    return out


def gen_api(ctx):
    quick = ctx.tier == "quick"

    def body(case):
        model, actions = check_api(case)
        cls = classes_of(model, actions, case["system"])
        ctx.count(key=case, nontrivial=len(cls) > 1, classes=cls + (["via-binarize"] if case["binarize"] else []))
        if "consecutive-GAPs" in cls or ("unary-root" in cls and case["system"] == "gap"):
            ctx.sample({"system": case["system"], "tree": M.strip_ids(model), "actions": actions}, cap=2)
    ctx.hyp(api_case(11 if quick else 14), body, max_examples=1500 if quick else 8000)


@st.composite
def cli_case(draw):
    system = draw(st.sampled_from(["topdown", "inorder", "gap"]))
    arity = 5 if system == "inorder" else 2
    tree = S.tree_model(max_tokens=7, disc=0.8 if system == "gap" else 0.0, max_arity=arity, max_root=(None if arity > 2 else 2),
                        words=st.sampled_from(["a", "b", "Haus", "x1", "ä", "%", "100%", "%s"]), labels=st.sampled_from(["S", "NP", "VP", "VPinf", "Größe"]),
                        pos=st.sampled_from(["NN", "VB", "ART", "$%"]), edges=st.sampled_from(["HD", "NK", "SB", "--"]))
    return {"system": system, "trees": draw(S.corpus(tree, 1, 4)), "pos": draw(st.booleans()), "topnode": draw(st.integers(0, 2)) == 0}


def gen_cli(ctx):
    quick = ctx.tier == "quick"

    def body(case):
        check_cli(case)
        unary = any(len(n["c"]) == 1 for t in case["trees"] for n in M.constituents(t["root"]))
        ctx.count(key=case, nontrivial=unary or case["system"] == "gap", classes=["cli:" + case["system"], "cli:pos" if case["pos"] else "cli:words"])
        if len(case["trees"]) >= 2:
            ctx.sample({"system": case["system"], "pos": case["pos"], "export": CT.encode_export(case["trees"])}, cap=1)
    ctx.hyp(cli_case(), body, max_examples=12 if quick else 80, shrink=False,
            smaller=lambda c: [dict(c, trees=c["trees"][:i] + c["trees"][i + 1:]) for i in range(len(c["trees"])) if len(c["trees"]) > 1])


def gen_cli_inproc(ctx):
    """the same command line through runpy in this process: more cases, each after the earlier ones (other systems,
    output options, transformations) in one interpreter"""
    quick = ctx.tier == "quick"

    def body(case):
        check_cli(case)
        unary = any(len(n["c"]) == 1 for t in case["trees"] for n in M.constituents(t["root"]))
        ctx.count(key=case, nontrivial=unary or case["system"] == "gap", classes=["cli-inproc:" + case["system"], "cli-inproc:pos" if case["pos"] else "cli-inproc:words"])
    if ctx.shard == 0:
        # more than a thousand sentences in one file: one output line per tree, in order
        big = []
        for i in range(1005):
            toks = [{"w": "w%d" % i, "p": "NN", "n": 1, "e": "HD", "lem": "--", "m": "--"}, {"w": "x", "p": "VB", "n": 2, "e": "--", "lem": "--", "m": "--"}]
            big.append({"sid": i + 1, "root": {"l": "VROOT", "e": "--", "lem": "--", "m": "--", "c": [{"l": "S", "e": "--", "lem": "--", "m": "--", "c": toks}]}})
        try:
            ctx.run_case(body, {"system": "inorder", "trees": big, "pos": False, "topnode": False, "inproc": True})
        except Violation as vio:
            ctx.record(vio)
    ctx.hyp(cli_case().map(lambda c: dict(c, inproc=True)), body, max_examples=80 if quick else 800, shrink=False,
            smaller=lambda c: [dict(c, trees=c["trees"][:i] + c["trees"][i + 1:]) for i in range(len(c["trees"])) if len(c["trees"]) > 1])


UNITS = [Unit("api", gen_api, check_api, shards=(4, 16)),
         Unit("cli", gen_cli, check_cli, shards=(4, 8)),
         Unit("cli_inproc", gen_cli_inproc, check_cli, shards=(4, 8))]
