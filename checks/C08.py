"""C08 - rule and lexicon counts are conserved through extraction and binarization."""
from collections import Counter
from hypothesis import strategies as st

from vlib import model as M
from vlib import lcfrs
from vlib.runner import Unit, violation, call, Violation
from vlib.repo import T, grammar
from checks.C06 import treebank
from checks.C07 import REORD, is_bin

RULE = ("Hypothesis treebank pools (1..6 trees drawn with replacement from 1..3 shapes, 4 category labels, arity <= 4, discontinuous) so that one "
        "rule recurs in several trees and under different parents; grammar types treebank / leftright / optimal, deterministic and Markovized with "
        "v,h in 0..3 with/without nofanout (all 1+2*33 modes per treebank in thorough, a drawn subset in quick). Oracle from the set model: per "
        "original label, summed counts of rules rewriting it = number of nodes; per symbol incl. @-symbols, rewriting counts + tag count = "
        "count-weighted right-hand-side occurrences + root count; deterministic chains carry the summed count of their original rule. "
        "Non-trivial = some rule of rank >= 3 with >= 2 vertical contexts or total count >= 2; distinct by digest of (treebank, mode).")
ASSUMPTIONS = ["grammar is extracted by the repository's extractor (its faithfulness is C06) and cross-checked against the reference extractor here",
               "POS tags and category labels are drawn from disjoint alphabets"]


def totals(gram):
    return {(f, l): sum(gram[f][l].values()) for f in gram for l in gram[f]}


def check(case):
    """case: {"bank": [...], "mode": {...}} or {"bank": [...], "modes": [...]} (several modes on one treebank)"""
    if "modes" in case:
        multi = False
        for mode in case["modes"]:
            multi = check({"bank": case["bank"], "mode": mode}) or multi
        return multi
    bank = case["bank"]
    gram, lex = {}, {}
    for tree in bank:
        call("C08/extract", grammar.extract, M.build(tree, T), gram, lex)
    ref_gram, ref_lex = lcfrs.extract_treebank(bank)
    if gram != ref_gram:
        raise violation("C08/extract/differs-from-reference", "extracted grammar differs from the occurrences in the treebank (see C06)")
    nodes = Counter()
    roots = Counter()
    tags = Counter()
    for tree in bank:
        roots[tree["root"]["l"]] += 1
        for node in M.constituents(tree["root"]):
            nodes[node["l"]] += 1
        for tok in M.toks(tree["root"]):
            tags[tok["p"]] += 1
    mode = case["mode"]
    prefix = "C08/" + ("treebank" if mode["type"] == "treebank" else ("markov" if mode.get("markov") else "deterministic")) + ("-nofanout" if mode.get("nofanout") else "")
    if mode["type"] == "treebank":
        result = gram
    else:
        opts = None
        if mode.get("markov"):
            opts = {"v": mode["v"], "h": mode["h"]}
            if mode.get("nofanout"):
                opts["nofanout"] = True
        result = call(prefix, grammar.binarize, gram, reordering=REORD["none" if mode["type"] == "leftright" else "optimal"], markov_opts=opts)
    verify(prefix, bank, mode, totals(result), {w: dict(c) for w, c in lex.items()}, nodes, roots, tags, ref_gram, ref_lex)
    multi = any(len(f) >= 4 and (len(ref_gram[f][l]) >= 2 or sum(ref_gram[f][l].values()) >= 2) for f in ref_gram for l in ref_gram[f])
    return multi


def verify(prefix, bank, mode, count, lex_now, nodes, roots, tags, ref_gram, ref_lex):
    """count: {(func, lin): summed count} of the resulting grammar (in memory, or decoded from written files)"""
    for (f, l), c in count.items():
        if not isinstance(c, int) or c < 1:
            raise violation(prefix + "/non-positive-count", "%r %r -> %r" % (f, l, c))
    # (a) per original label
    rewriting = Counter()
    for (f, l), c in count.items():
        rewriting[f[0]] += c
    for label, n in nodes.items():
        if is_bin(label):
            continue        # an @-label of an already binarized treebank may coincide with a generated symbol: only law (b) applies
        if rewriting.get(label, 0) != n:
            raise violation(prefix + "/per-label-sum", "label %s: rules rewriting it sum to %d, treebank has %d nodes" % (label, rewriting.get(label, 0), n))
    # (b) flow conservation for every symbol
    used = Counter()
    for (f, l), c in count.items():
        for sym in f[1:]:
            used[sym] += c
    for sym in set(rewriting) | set(used) | set(tags) | set(roots):
        lhs = rewriting.get(sym, 0) + tags.get(sym, 0)
        rhs = used.get(sym, 0) + roots.get(sym, 0)
        if lhs != rhs:
            kind = "/flow-conservation-bin-symbol" if is_bin(sym) else "/flow-conservation"
            raise violation(prefix + kind, "symbol %s: rewritten %d times (+%d as tag) but used %d times (+%d as root)"
                            % (sym, rewriting.get(sym, 0), tags.get(sym, 0), used.get(sym, 0), roots.get(sym, 0)))
    # (c) sums over trees and vertical contexts
    ref_tot = totals(ref_gram)
    at_labels = any(is_bin(n["l"]) for tree in bank for n in M.constituents(tree["root"]))
    if mode["type"] != "treebank" and not mode.get("markov") and not at_labels:
        # deterministic: unique chains; every rule of a chain carries the total of its original rule
        # (not for treebanks that already contain @-labelled nodes: their rules may coincide with generated ones)
        defs = {f[0]: (f, l) for (f, l) in count if is_bin(f[0])}
        for (f, l), c in count.items():
            if is_bin(f[-1]) and f[-1] in defs and count[defs[f[-1]]] != c:
                raise violation(prefix + "/chain-count", "%r has count %d, the rule defining %s has %d" % (f, c, f[-1], count[defs[f[-1]]]))
        small = Counter()
        for (f, l), c in ref_tot.items():
            if len(f) <= 3:
                small[lcfrs.canonical(f, l)] += c
        got_small = Counter()
        for (f, l), c in count.items():
            if not is_bin(f[0]) and not is_bin(f[-1]):
                got_small[lcfrs.canonical(f, l)] += c
        if small != got_small:
            raise violation(prefix + "/small-rule-count", "counts of rules with <= 2 rhs elements: %r, occurrences %r" % (sorted((got_small - small).items())[:2], sorted((small - got_small).items())[:2]))
    if lex_now != {w: dict(c) for w, c in ref_lex.items()}:
        raise violation(prefix + "/lexicon", "lexicon counts changed")


def modes(quick):
    out = [{"type": "treebank"}]
    for typ in ("leftright", "optimal"):
        out.append({"type": typ})
        for v in range(4):
            for h in range(4):
                for nf in (False, True):
                    out.append({"type": typ, "markov": True, "v": v, "h": h, "nofanout": nf})
    return out


def sandwich_banks():
    """One rule (NP -> DT NN) under three vertical contexts of which the first and the last differ only in the fan-out
    of an ancestor (VP with and without a gap) and the middle one differs in labels; every order of the three."""
    import itertools

    def tok(word, tag, num):
        return {"w": word, "p": tag, "n": num, "e": "--", "lem": "--", "m": "--"}

    def node(label, children):
        return {"l": label, "e": "--", "lem": "--", "m": "--", "c": children}
    gap = node("VROOT", [node("S", [node("VP", [node("NP", [tok("a", "DT", 1), tok("b", "NN", 2)]), tok("c", "VB", 4)]), tok("d", "ADV", 3)])])
    flat = node("VROOT", [node("S", [node("NP", [tok("a", "DT", 1), tok("b", "NN", 2)]), tok("c", "VB", 3)])])
    cont = node("VROOT", [node("S", [node("VP", [node("NP", [tok("a", "DT", 1), tok("b", "NN", 2)]), tok("c", "VB", 3)]), tok("d", "ADV", 4)])])
    trees = [gap, flat, cont]
    for order in itertools.permutations(range(3)):
        yield [{"sid": i + 1, "root": trees[k]} for i, k in enumerate(order)]
    yield [{"sid": i + 1, "root": t} for i, t in enumerate([gap, gap, flat, cont, flat, gap])]
    # a treebank that is already binarized: its labels look like the symbols the binarization generates (@1X
    # deterministic, @X for v:0 h:0), so original rules coincide with generated ones and their counts must add up
    for sym in ("@1X", "@X", "@2X"):
        ternary = node("VROOT", [node("S", [tok("a", "A", 1), tok("b", "B", 2), tok("c", "C", 3)])])
        binary = node("VROOT", [node("S", [tok("a", "A", 1), node(sym, [tok("b", "B", 2), tok("c", "C", 3)])])])
        for order in ([ternary, binary], [binary, ternary], [ternary, binary, binary, ternary]):
            yield [{"sid": i + 1, "root": t} for i, t in enumerate(order)]


def gen(ctx):
    quick = ctx.tier == "quick"
    all_modes = modes(quick)
    if ctx.shard == 0:
        for bank in sandwich_banks():
            case = {"bank": bank, "modes": all_modes}
            try:
                ctx.run_case(check, case)
            except Violation as vio:
                ctx.record(vio)
            ctx.count(key=(bank, "all-modes"), nontrivial=True, classes=["fixed-treebanks:coinciding-contexts-or-binarization-like-labels"])

    @st.composite
    def cases(draw):
        bank = draw(treebank(8 if quick else 11, 6, pos=("NN", "VB", "ART", "$(", "-LRB-")))      # tags that look like brackets are tags
        nf = [m for m in all_modes if m.get("nofanout")]
        plain = [m for m in all_modes if m.get("markov") and not m.get("nofanout")]
        det = [m for m in all_modes if not m.get("markov")]
        return {"bank": bank, "modes": [draw(st.sampled_from(det)), draw(st.sampled_from(plain)), draw(st.sampled_from(nf)), draw(st.sampled_from(nf))]}

    def body(case):
        multi = check(case)
        ref_gram, _ = lcfrs.extract_treebank(case["bank"])
        strip = lambda vert: tuple(x.rstrip("0123456789") for x in vert)
        merge = any(len(set(strip(v) for v in ref_gram[f][l])) < len(ref_gram[f][l]) for f in ref_gram for l in ref_gram[f])
        for mode in case["modes"]:
            name = mode["type"] + ("+markov" if mode.get("markov") else "") + ("+nofanout" if mode.get("nofanout") else "")
            ctx.count(key=(case["bank"], mode), nontrivial=multi, classes=["mode=" + name, "multi-context-rank3" if multi else "plain"]
                      + (["contexts-coincide-after-stripping-fanouts"] if merge and mode.get("nofanout") else []))
        if multi and merge:
            ctx.sample({"modes": case["modes"], "treebank": [t["root"] for t in case["bank"]]}, cap=1)
    ctx.hyp(cases(), body, max_examples=500 if quick else 3000)


UNITS = [Unit("conservation", gen, check, shards=(4, 16))]


# ----------------------------------------------------------------------------------------------- counts behind the command line

def check_cli(case):
    """`treetools grammar` (all grammar types and Markovization settings, sources in three formats, plain or gzip): the counts
    in the written grammar and lexicon files obey the same conservation laws against the node and token counts of the treebank"""
    from vlib import cligrammar
    bank, mode = case["bank"], case["mode"]
    count, lex = cligrammar.run("C08/cli", case)
    ref_gram, ref_lex = lcfrs.extract_treebank(bank)
    nodes, roots, tags = Counter(), Counter(), Counter()
    for tree in bank:
        roots[tree["root"]["l"]] += 1
        for node in M.constituents(tree["root"]):
            nodes[node["l"]] += 1
        for tok in M.toks(tree["root"]):
            tags[tok["p"]] += 1
    prefix = "C08/cli-" + ("treebank" if mode["type"] == "treebank" else ("markov" if mode.get("markov") else "deterministic")) + ("-nofanout" if mode.get("nofanout") else "")
    verify(prefix, bank, mode, dict(count), lex, nodes, roots, tags, ref_gram, ref_lex)
    return any(len(f) >= 4 and (len(ref_gram[f][l]) >= 2 or sum(ref_gram[f][l].values()) >= 2) for f in ref_gram for l in ref_gram[f])


def gen_cli(ctx):
    from vlib import cligrammar
    quick = ctx.tier == "quick"

    def body(case):
        multi = check_cli(case)
        ctx.count(key=case, nontrivial=multi or case.get("gz") == 2, classes=cligrammar.classes(case))
    ctx.hyp(cligrammar.settings(treebank(8 if quick else 11, 6), modes(quick)), body, max_examples=100 if quick else 1000, shrink=False,
            smaller=cligrammar.smaller)


UNITS.append(Unit("cli", gen_cli, check_cli, shards=(2, 8)))
