"""C07 - grammar binarization preserves every rule's yield function."""
import contextlib
import io
import itertools
import os
from hypothesis import strategies as st

from vlib import model as M
from vlib import lcfrs
from vlib.runner import Unit, violation, call, Violation
from vlib.repo import grammar
from checks.C06 import treebank

RULE = ("enum_det: exhaustively every canonical ordered non-deleting non-erasing rule of rank <= 4 with <= 7 variables (23 425; thorough: rank <= 5, "
        "<= 8 variables), in grammars of 24 rules, x reordering {none, optimal}, deterministic binarization: <= 2 rhs elements, every @-symbol "
        "defined once with one fan-out, inlining all @-symbols gives back exactly the input rules (up to the canonical re-ordering for optimal), "
        "rules of rank <= 2 unchanged. enum_markov: a stride sample of the same rules x v,h in 0..3 x nofanout x reordering: a depth-first search "
        "must find a chain of result rules composing to the original rule with matching fan-outs. treebank: rules extracted (reference "
        "extractor) from random treebanks, all modes. Non-trivial = rank >= 3; distinct by construction (enumeration) / digest (treebanks).")
ASSUMPTIONS = ["LCFRS composition and canonical form implemented independently in vlib/lcfrs.py",
               "input labels never start with '@' (precondition of the binarizer's naming scheme)"]

REORD = {"none": grammar.reordering_none, "optimal": grammar.reordering_optimal}
LABELS = ["B", "C", "D", "E", "F"]


def is_bin(label):
    return label.startswith("@")


def make_grammar(rules):
    """rules: list of (func, lin, vert-count dict)"""
    gram = {}
    for func, lin, verts in rules:
        gram.setdefault(func, {}).setdefault(lin, {}).update(verts)
    return gram


def check_result_shape(prefix, result):
    for func in result:
        if len(func) > 3:
            raise violation(prefix + "/more-than-two-rhs", "%r" % (func,))
        if len(func) < 2:
            raise violation(prefix + "/no-rhs", "%r" % (func,))
        for lin in result[func]:
            bad = lcfrs.well_formed_rule(func, lin)
            if bad:
                raise violation(prefix + "/result-rule-not-well-formed", "%r %r: %s" % (func, lin, bad))


def unbinarize_deterministic(prefix, result):
    """Inline every @-symbol (each must be defined exactly once).  Returns list of (func, lin)."""
    defs = {}
    for func in result:
        if is_bin(func[0]):
            for lin in result[func]:
                defs.setdefault(func[0], []).append((func, lin))
    for sym, rules in defs.items():
        if len(rules) != 1:
            raise violation(prefix + "/bin-symbol-defined-twice", "%s has %d definitions" % (sym, len(rules)))
    out = []
    for func in result:
        if is_bin(func[0]):
            continue
        for lin in result[func]:
            cur = (func, lin)
            guard = 0
            while is_bin(cur[0][-1]):
                guard += 1
                if guard > 50 or cur[0][-1] not in defs:
                    raise violation(prefix + "/bin-symbol-undefined", "%s" % cur[0][-1])
                sub = defs[cur[0][-1]][0]
                try:
                    cur = lcfrs.inline_last(cur[0], cur[1], sub[0], sub[1])
                except ValueError as exc:
                    raise violation(prefix + "/fanout-mismatch", str(exc))
            if any(is_bin(lab) for lab in cur[0][1:]):
                raise violation(prefix + "/bin-symbol-not-last", "%r" % (cur[0],))
            out.append(cur)
    return out


def check_deterministic(case):
    """case: {"reordering": name, "rules": [[func, lin], ...]}"""
    rules = [(tuple(f), tuple(tuple(tuple(v) for v in arg) for arg in l)) for f, l in case["rules"]]
    prefix = "C07/det-" + case["reordering"]
    gram = make_grammar([(f, l, {("X1",): 1}) for f, l in rules])
    result = call(prefix, grammar.binarize, gram, reordering=REORD[case["reordering"]], markov_opts=None)
    verify_deterministic(prefix, case["reordering"], rules, result)


def verify_deterministic(prefix, reordering, rules, result):
    """result: {func: {lin: ...}} as returned by binarize or as decoded from a written grammar file"""
    check_result_shape(prefix, result)
    restored = unbinarize_deterministic(prefix, result)
    if reordering == "none":
        if sorted(restored) != sorted(set(rules)):
            missing = sorted(set(rules) - set(restored))[:1]
            extra = sorted(set(restored) - set(rules))[:1]
            raise violation(prefix + "/not-restored", "input rule %r not restored; got instead %r" % (missing, extra))
    else:
        want = sorted(lcfrs.canonical(f, l) for f, l in set(rules))
        got = sorted(lcfrs.canonical(f, l) for f, l in restored)
        if want != got:
            missing = [r for r in want if r not in got][:1]
            extra = [r for r in got if r not in want][:1]
            raise violation(prefix + "/not-restored", "input rule %r not restored up to re-ordering; got instead %r" % (missing, extra))
    for func, lin in rules:
        if len(func) <= 3:
            if reordering == "none":
                if func not in result or lin not in result[func]:
                    raise violation(prefix + "/small-rule-changed", "%r %r" % (func, lin))
            else:
                if not any(lcfrs.canonical(f, l) == lcfrs.canonical(func, lin) for f in result if len(f) == len(func) and f[0] == func[0] for l in result[f]):
                    raise violation(prefix + "/small-rule-changed", "%r %r" % (func, lin))


def find_chain(result, func, lin, exact):
    """Depth-first search for a chain of result rules composing to (func, lin)."""
    rank = len(func) - 1
    target = (func, lin) if exact else lcfrs.canonical(func, lin)
    by_lhs = {}
    for f in result:
        by_lhs.setdefault(f[0], []).append(f)

    def rec(composed, steps):
        cfunc, clin = composed
        if not is_bin(cfunc[-1]) or len(cfunc) - 1 == rank and not is_bin(cfunc[-1]):
            if len(cfunc) - 1 == rank:
                got = composed if exact else lcfrs.canonical(cfunc, clin)
                return got == target
            return False
        if len(cfunc) - 1 >= rank:
            return False
        sym = cfunc[-1]
        used = len(set(a for arg in clin for (p, a) in arg if p == len(cfunc) - 2))
        for f in by_lhs.get(sym, ()):
            if len(f) != 3:
                continue
            for l in result[f]:
                if len(l) != used:
                    continue
                try:
                    nxt = lcfrs.inline_last(cfunc, clin, f, l)
                except ValueError:
                    continue
                if rec(nxt, steps + 1):
                    return True
        return False
    for f in by_lhs.get(func[0], ()):
        if len(f) != 3 and rank > 2:
            continue
        for l in result[f]:
            if len(l) != len(lin):
                continue
            if rec((f, l), 1):
                return True
    return False


def check_markov(case):
    """case: {"reordering", "v", "h", "nofanout", "rules": [[func, lin, [[vert, count], ...]], ...]}"""
    rules = []
    for f, l, verts in case["rules"]:
        rules.append((tuple(f), tuple(tuple(tuple(v) for v in arg) for arg in l), {tuple(v): c for v, c in verts}))
    opts = {"v": case["v"], "h": case["h"]}
    if case["nofanout"]:
        opts["nofanout"] = True
    prefix = "C07/markov-" + case["reordering"]
    gram = make_grammar(rules)
    result = call(prefix, grammar.binarize, gram, reordering=REORD[case["reordering"]], markov_opts=opts)
    verify_markov(prefix, case["reordering"], [(f, l) for f, l, _v in rules], result, "v=%d h=%d nofanout=%r" % (case["v"], case["h"], case["nofanout"]))


def verify_markov(prefix, reordering, rules, result, desc):
    check_result_shape(prefix, result)
    for func, lin in rules:
        rank = len(func) - 1
        if rank <= 2:
            ok = (func in result and lin in result[func]) if reordering == "none" else \
                any(lcfrs.canonical(f, l) == lcfrs.canonical(func, lin) for f in result if len(f) == len(func) and f[0] == func[0] for l in result[f])
            if not ok:
                raise violation(prefix + "/small-rule-changed", "%r %r" % (func, lin))
            continue
        if not find_chain(result, func, lin, exact=(reordering == "none")):
            raise violation(prefix + "/no-chain", "no chain of result rules composes to %r %r (%s)" % (func, lin, desc))


# ----------------------------------------------------------------------------------------------- generators

def rule_of(index, rank, lin):
    labels = LABELS[:rank] if index % 2 == 0 else ["B"] * rank
    return (("A%d" % (index % 3),) + tuple(labels), lin)


def enumerated(max_rank, max_vars):
    for index, (rank, lin) in enumerate(lcfrs.canonical_rules(max_rank, max_vars)):
        yield index, rule_of(index, rank, lin)


def gen_enum_det(ctx):
    quick = ctx.tier == "quick"
    max_rank, max_vars = (4, 7) if quick else (5, 8)
    batch = []
    complete = True
    nbatch = 0

    def flush():
        for reordering in ("none", "optimal"):
            case = {"reordering": reordering, "rules": [list(r) for r in batch]}
            try:
                ctx.run_case(check_deterministic, case)
            except Violation as vio:
                # narrow down to a single rule for the replay file
                for rule in batch:
                    single = {"reordering": reordering, "rules": [list(rule)]}
                    try:
                        check_deterministic(single)
                    except Violation as again:
                        if again.kind == vio.kind:
                            vio.case = single
                            vio.detail = again.detail
                            break
                ctx.record(vio)
        for func, lin in batch:
            rank = len(func) - 1
            ctx.count(nontrivial=rank >= 3, by_construction=True, classes=["det:rank=%d" % rank, "det:lhs-fanout=%d" % min(len(lin), 4)])
            ctx.evaluations += 1  # two reorderings per rule
    for index, rule in enumerated(max_rank, max_vars):
        if (index // 24) % ctx.nshards != ctx.shard:
            continue
        batch.append(rule)
        if len(batch) == 24:
            if ctx.time_up():
                ctx.inconclusive = True
                complete = False
                break
            flush()
            nbatch += 1
            if nbatch == 3:
                ctx.sample({"rule": batch[5]}, cap=1)
            batch = []
    if batch and complete:
        flush()
    if complete:
        ctx.exhaustive = "all canonical rules rank<=%d, <=%d variables x {none, optimal}, deterministic" % (max_rank, max_vars)


def gen_enum_markov(ctx):
    quick = ctx.tier == "quick"
    stride = 5 if quick else 1
    combos = [(v, h, nf, ro) for v in range(4) for h in range(4) for nf in (False, True) for ro in ("none", "optimal")]
    n = 0
    for index, (func, lin) in enumerated(4, 7):
        if len(func) - 1 < 3 or index % stride != 0:
            continue
        n += 1
        if n % ctx.nshards != ctx.shard:
            continue
        if ctx.time_up():
            ctx.inconclusive = True
            break
        # the same rule under two parents, plus a sibling rule sharing its first two rhs labels
        verts = [[["%s%d" % (func[0], len(lin)), "P1", "Q2"], 1], [["%s%d" % (func[0], len(lin)), "R1"], 2]]
        for v, h, nf, ro in combos[n % 2::2] if quick else combos:
            case = {"reordering": ro, "v": v, "h": h, "nofanout": nf, "rules": [[list(func), lin, verts]]}
            try:
                ctx.run_case(check_markov, case)
            except Violation as vio:
                ctx.record(vio)
            ctx.count(nontrivial=True, by_construction=True, classes=["markov:rank=%d" % (len(func) - 1), "markov:v=%d" % v, "markov:h=%d" % h])
        if n % 97 == 0:
            ctx.sample({"rule": [func, lin], "vertical_contexts": verts}, cap=1)


def gen_treebank(ctx):
    quick = ctx.tier == "quick"

    @st.composite
    def cases(draw):
        return {"bank": draw(treebank(8 if quick else 11, 5)), "reordering": draw(st.sampled_from(["none", "optimal"])),
                "markov": draw(st.booleans()), "v": draw(st.integers(0, 3)), "h": draw(st.integers(0, 3)), "nofanout": draw(st.booleans())}

    def body(case):
        check_treebank(case)
        gram, _ = lcfrs.extract_treebank(case["bank"])
        rank = max(len(f) - 1 for f in gram)
        ctx.count(key=case, nontrivial=rank >= 3, classes=["treebank:maxrank=%d" % min(rank, 5), "treebank:markov" if case["markov"] else "treebank:det"])
        if rank >= 4:
            ctx.sample({k: v for k, v in case.items() if k != "bank"}, cap=1)
    ctx.hyp(cases(), body, max_examples=500 if quick else 3000)


def check_treebank(case):
    gram, _lex = lcfrs.extract_treebank(case["bank"])
    rules = [[list(f), l, [[list(v), c] for v, c in gram[f][l].items()]] for f in gram for l in gram[f]]
    if case["markov"]:
        check_markov({"reordering": case["reordering"], "v": case["v"], "h": case["h"], "nofanout": case["nofanout"], "rules": rules})
    else:
        check_deterministic({"reordering": case["reordering"], "rules": [r[:2] for r in rules]})


UNITS = [Unit("enum_det", gen_enum_det, check_deterministic, shards=(8, 16)),
         Unit("enum_markov", gen_enum_markov, check_markov, shards=(8, 16)),
         Unit("treebank", gen_treebank, check_treebank, shards=(2, 8))]


# ----------------------------------------------------------------------------------------------- binarization behind the command line

def as_result(rules):
    out = {}
    for (func, lin), count in rules.items():
        out.setdefault(func, {})[lin] = {(): count}
    return out


def verify_cli(prefix, mode, originals, rules):
    reordering = "none" if mode["type"] == "leftright" else "optimal"
    result = as_result(rules)
    if mode.get("markov"):
        verify_markov(prefix, reordering, originals, result, "v=%d h=%d nofanout=%r" % (mode["v"], mode["h"], bool(mode.get("nofanout"))))
    else:
        verify_deterministic(prefix, reordering, originals, result)


def check_cli(case):
    """`treetools grammar <treebank> <prefix> leftright|optimal [--markov ...]`: the written grammar, decoded independently,
    must be a binarization of the treebank's rules (reference extraction from the set model)"""
    from vlib import cligrammar
    rules, _lex = cligrammar.run("C07/cli", case)
    gram, _ = lcfrs.extract_treebank(case["bank"])
    verify_cli("C07/cli-" + case["mode"]["type"] + ("-markov" if case["mode"].get("markov") else ""), case["mode"],
               [(f, l) for f in gram for l in gram[f]], rules)


def check_cli_grammarfile(case):
    """a grammar file (RCG, written by the tool from a hand-made grammar) as the input of `treetools grammar ... leftright|optimal`"""
    from vlib import cligrammar
    from vlib.repo import grammaroutput
    originals = [(tuple(f), tuple(tuple(tuple(v) for v in arg) for arg in l)) for f, l in case["rules"]]
    gram = make_grammar([(f, l, {("X1",): 1 + i % 3}) for i, (f, l) in enumerate(originals)])

    def source(path):
        with contextlib.redirect_stderr(io.StringIO()):
            call("C07/cli-grammarfile/write-input", grammaroutput.rcg, gram, {"w": {"T": 1}}, path, "utf-8")
    rules, _lex = cligrammar.run("C07/cli-grammarfile", dict(case, src_fmt="rcg", src_enc="utf-8", gz=0, before=[]), source=source)
    verify_cli("C07/cli-grammarfile-" + case["mode"]["type"] + ("-markov" if case["mode"].get("markov") else ""), case["mode"], originals, rules)


def cli_modes():
    out = []
    for typ in ("leftright", "optimal"):
        out += [{"type": typ}, {"type": typ}, {"type": typ}]
        for v in (0, 1, 2):
            for h in (0, 1, 2, 3):
                for nf in (False, True):
                    out.append({"type": typ, "markov": True, "v": v, "h": h, "nofanout": nf})
    return out


def large_bank(n):
    """n sentences, each with two productions of its own (one of rank 4): more than 100 distinct productions"""
    bank = []
    for i in range(n):
        lab = "N" + "ABCDEFGHIJKLMNOPQRSTUVWXYZ"[i % 26] + "ABCDEFGHIJKLMNOPQRSTUVWXYZ"[i // 26]
        # tags of its own, too: the rules that define the binarization symbols differ from sentence to sentence
        toks = [{"w": "w", "p": "P" + lab[1:] + x, "n": j + 1, "e": "--", "lem": "--", "m": "--"} for j, x in enumerate("ABCDE")]
        order = [0, 1, 2, 3]
        inner = {"l": lab, "e": "--", "lem": "--", "m": "--", "c": [toks[j] for j in order]}
        bank.append({"sid": i + 1, "root": {"l": "VROOT", "e": "--", "lem": "--", "m": "--", "c": [inner, toks[4]]}})
    return bank


def gen_cli(ctx):
    from vlib import cligrammar
    quick = ctx.tier == "quick"

    def body(case):
        check_cli(case)
        gram, _ = lcfrs.extract_treebank(case["bank"])
        rank = max(len(f) - 1 for f in gram)
        ctx.count(key=case, nontrivial=rank >= 3, classes=cligrammar.classes(case) + ["cli:maxrank=%d" % min(rank, 5)])
    if ctx.shard == 0:
        # more productions than any portion-wise processing would take at once
        for mode in ({"type": "leftright"}, {"type": "optimal"}, {"type": "leftright", "markov": True, "v": 1, "h": 1, "nofanout": False}):
            case = {"bank": large_bank(70), "mode": mode, "src_fmt": "export", "src_enc": "utf-8", "dest_fmt": "rcg", "dest_enc": "utf-8", "gz": 0,
                    "inproc": True, "before": []}
            try:
                ctx.run_case(body, case)
            except Violation as vio:
                ctx.record(vio)
    ctx.hyp(cligrammar.settings(treebank(8 if quick else 11, 5), cli_modes()), body, max_examples=80 if quick else 800, shrink=False,
            smaller=cligrammar.smaller)


def gen_cli_grammarfile(ctx):
    quick = ctx.tier == "quick"
    pool = {}
    for rank, lin in lcfrs.canonical_rules(4, 6, min_rank=3):
        pool.setdefault((rank, tuple(lcfrs.fanouts(lin, rank))), []).append(lin)
    keys = sorted(k for k in pool if len(pool[k]) >= 2)

    @st.composite
    def cases(draw):
        rules = []
        for i in range(draw(st.integers(1, 3))):
            rank, fans = draw(st.sampled_from(keys))
            func = ["L%s" % "ABC"[i]] + ["R%s" % "ABCD"[j] for j in range(rank)]
            # several linearizations of one production with the same fan-outs
            for lin in draw(st.lists(st.sampled_from(pool[(rank, fans)]), min_size=1, max_size=3, unique=True)):
                rules.append([func, lin])
        return {"rules": rules, "mode": dict(draw(st.sampled_from(cli_modes()))), "dest_fmt": draw(st.sampled_from(["pmcfg", "rcg"])),
                "dest_enc": "utf-8", "inproc": True}

    def body(case):
        check_cli_grammarfile(case)
        ctx.count(key=case, nontrivial=len(case["rules"]) >= 2, classes=["cli-grammarfile:type=%s%s" % (case["mode"]["type"], "+markov" if case["mode"].get("markov") else ""),
                                                                       "cli-grammarfile:rules=%d" % len(case["rules"])])
    ctx.hyp(cases(), body, max_examples=100 if quick else 1000, shrink=False,
            smaller=lambda c: [dict(c, rules=c["rules"][:i] + c["rules"][i + 1:]) for i in range(len(c["rules"])) if len(c["rules"]) > 1])


UNITS.append(Unit("cli", gen_cli, check_cli, shards=(2, 8)))
UNITS.append(Unit("cli_grammarfile", gen_cli_grammarfile, check_cli_grammarfile, shards=(2, 8)))
