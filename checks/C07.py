"""C07 - grammar binarization preserves every rule's yield function."""
import itertools
from hypothesis import strategies as st

from vlib import model as M
from vlib import lcfrs
from vlib.runner import Unit, violation, call, Violation
from vlib.repo import grammar
from checks.C06 import treebank

RULE = ("enum_det: exhaustively every canonical ordered non-deleting non-erasing rule of rank <= 4 with <= 7 variables (23 425; thorough: rank <= 5, "
        "<= 8 variables), in grammars of 24 rules, x reordering {none, optimal}, deterministic binarization: <= 2 rhs elements, every @-symbol "
        "defined once with one fan-out, inlining all @-symbols gives back exactly the input rules (up to the canonical re-ordering for optimal), "
        "rules of rank <= 2 unchanged. enum_markov: a stride sample of the same rules x v,h in 0..3 x nofanout x reordering: a depth-first search "
        "must find a chain of result rules composing to the original rule with matching fan-outs. treebank: rules extracted (reference "
        "extractor) from random treebanks, all modes. Non-trivial = rank >= 3; distinct by construction (enumeration) / digest (treebanks).")
ASSUMPTIONS = ["LCFRS composition and canonical form implemented independently in vlib/lcfrs.py",
               "input labels never start with '@' (precondition of the binarizer's naming scheme)"]

REORD = {"none": grammar.reordering_none, "optimal": grammar.reordering_optimal}
LABELS = ["B", "C", "D", "E", "F"]


def is_bin(label):
    return label.startswith("@")


def make_grammar(rules):
    """rules: list of (func, lin, vert-count dict)"""
    gram = {}
    for func, lin, verts in rules:
        gram.setdefault(func, {}).setdefault(lin, {}).update(verts)
    return gram


def check_result_shape(prefix, result):
    for func in result:
        if len(func) > 3:
            raise violation(prefix + "/more-than-two-rhs", "%r" % (func,))
        if len(func) < 2:
            raise violation(prefix + "/no-rhs", "%r" % (func,))
        for lin in result[func]:
            bad = lcfrs.well_formed_rule(func, lin)
            if bad:
                raise violation(prefix + "/result-rule-not-well-formed", "%r %r: %s" % (func, lin, bad))


def unbinarize_deterministic(prefix, result):
    """Inline every @-symbol (each must be defined exactly once).  Returns list of (func, lin)."""
    defs = {}
    for func in result:
        if is_bin(func[0]):
            for lin in result[func]:
                defs.setdefault(func[0], []).append((func, lin))
    for sym, rules in defs.items():
        if len(rules) != 1:
            raise violation(prefix + "/bin-symbol-defined-twice", "%s has %d definitions" % (sym, len(rules)))
    out = []
    for func in result:
        if is_bin(func[0]):
            continue
        for lin in result[func]:
            cur = (func, lin)
            guard = 0
            while is_bin(cur[0][-1]):
                guard += 1
                if guard > 50 or cur[0][-1] not in defs:
                    raise violation(prefix + "/bin-symbol-undefined", "%s" % cur[0][-1])
                sub = defs[cur[0][-1]][0]
                try:
                    cur = lcfrs.inline_last(cur[0], cur[1], sub[0], sub[1])
                except ValueError as exc:
                    raise violation(prefix + "/fanout-mismatch", str(exc))
            if any(is_bin(lab) for lab in cur[0][1:]):
                raise violation(prefix + "/bin-symbol-not-last", "%r" % (cur[0],))
            out.append(cur)
    return out


def check_deterministic(case):
    """case: {"reordering": name, "rules": [[func, lin], ...]}"""
    rules = [(tuple(f), tuple(tuple(tuple(v) for v in arg) for arg in l)) for f, l in case["rules"]]
    prefix = "C07/det-" + case["reordering"]
    gram = make_grammar([(f, l, {("X1",): 1}) for f, l in rules])
    result = call(prefix, grammar.binarize, gram, reordering=REORD[case["reordering"]], markov_opts=None)
    check_result_shape(prefix, result)
    restored = unbinarize_deterministic(prefix, result)
    if case["reordering"] == "none":
        if sorted(restored) != sorted(set(rules)):
            missing = sorted(set(rules) - set(restored))[:1]
            extra = sorted(set(restored) - set(rules))[:1]
            raise violation(prefix + "/not-restored", "input rule %r not restored; got instead %r" % (missing, extra))
    else:
        want = sorted(lcfrs.canonical(f, l) for f, l in set(rules))
        got = sorted(lcfrs.canonical(f, l) for f, l in restored)
        if want != got:
            missing = [r for r in want if r not in got][:1]
            extra = [r for r in got if r not in want][:1]
            raise violation(prefix + "/not-restored", "input rule %r not restored up to re-ordering; got instead %r" % (missing, extra))
    for func, lin in rules:
        if len(func) <= 3:
            if case["reordering"] == "none":
                if func not in result or lin not in result[func]:
                    raise violation(prefix + "/small-rule-changed", "%r %r" % (func, lin))
            else:
                if not any(lcfrs.canonical(f, l) == lcfrs.canonical(func, lin) for f in result if len(f) == len(func) and f[0] == func[0] for l in result[f]):
                    raise violation(prefix + "/small-rule-changed", "%r %r" % (func, lin))


def find_chain(result, func, lin, exact):
    """Depth-first search for a chain of result rules composing to (func, lin)."""
    rank = len(func) - 1
    target = (func, lin) if exact else lcfrs.canonical(func, lin)
    by_lhs = {}
    for f in result:
        by_lhs.setdefault(f[0], []).append(f)

    def rec(composed, steps):
        cfunc, clin = composed
        if not is_bin(cfunc[-1]) or len(cfunc) - 1 == rank and not is_bin(cfunc[-1]):
            if len(cfunc) - 1 == rank:
                got = composed if exact else lcfrs.canonical(cfunc, clin)
                return got == target
            return False
        if len(cfunc) - 1 >= rank:
            return False
        sym = cfunc[-1]
        used = len(set(a for arg in clin for (p, a) in arg if p == len(cfunc) - 2))
        for f in by_lhs.get(sym, ()):
            if len(f) != 3:
                continue
            for l in result[f]:
                if len(l) != used:
                    continue
                try:
                    nxt = lcfrs.inline_last(cfunc, clin, f, l)
                except ValueError:
                    continue
                if rec(nxt, steps + 1):
                    return True
        return False
    for f in by_lhs.get(func[0], ()):
        if len(f) != 3 and rank > 2:
            continue
        for l in result[f]:
            if len(l) != len(lin):
                continue
            if rec((f, l), 1):
                return True
    return False


def check_markov(case):
    """case: {"reordering", "v", "h", "nofanout", "rules": [[func, lin, [[vert, count], ...]], ...]}"""
    rules = []
    for f, l, verts in case["rules"]:
        rules.append((tuple(f), tuple(tuple(tuple(v) for v in arg) for arg in l), {tuple(v): c for v, c in verts}))
    opts = {"v": case["v"], "h": case["h"]}
    if case["nofanout"]:
        opts["nofanout"] = True
    prefix = "C07/markov-" + case["reordering"]
    gram = make_grammar(rules)
    result = call(prefix, grammar.binarize, gram, reordering=REORD[case["reordering"]], markov_opts=opts)
    check_result_shape(prefix, result)
    for func, lin, _v in rules:
        rank = len(func) - 1
        if rank <= 2:
            ok = (func in result and lin in result[func]) if case["reordering"] == "none" else \
                any(lcfrs.canonical(f, l) == lcfrs.canonical(func, lin) for f in result if len(f) == len(func) and f[0] == func[0] for l in result[f])
            if not ok:
                raise violation(prefix + "/small-rule-changed", "%r %r" % (func, lin))
            continue
        if not find_chain(result, func, lin, exact=(case["reordering"] == "none")):
            raise violation(prefix + "/no-chain", "no chain of result rules composes to %r %r (v=%d h=%d nofanout=%r)" % (func, lin, case["v"], case["h"], case["nofanout"]))


# ----------------------------------------------------------------------------------------------- generators

def rule_of(index, rank, lin):
    labels = LABELS[:rank] if index % 2 == 0 else ["B"] * rank
    return (("A%d" % (index % 3),) + tuple(labels), lin)


def enumerated(max_rank, max_vars):
    for index, (rank, lin) in enumerate(lcfrs.canonical_rules(max_rank, max_vars)):
        yield index, rule_of(index, rank, lin)


def gen_enum_det(ctx):
    quick = ctx.tier == "quick"
    max_rank, max_vars = (4, 7) if quick else (5, 8)
    batch = []
    complete = True
    nbatch = 0

    def flush():
        for reordering in ("none", "optimal"):
            case = {"reordering": reordering, "rules": [list(r) for r in batch]}
            try:
                ctx.run_case(check_deterministic, case)
            except Violation as vio:
                # narrow down to a single rule for the replay file
                for rule in batch:
                    single = {"reordering": reordering, "rules": [list(rule)]}
                    try:
                        check_deterministic(single)
                    except Violation as again:
                        if again.kind == vio.kind:
                            vio.case = single
                            vio.detail = again.detail
                            break
                ctx.record(vio)
        for func, lin in batch:
            rank = len(func) - 1
            ctx.count(nontrivial=rank >= 3, by_construction=True, classes=["det:rank=%d" % rank, "det:lhs-fanout=%d" % min(len(lin), 4)])
            ctx.evaluations += 1  # two reorderings per rule
    for index, rule in enumerated(max_rank, max_vars):
        if (index // 24) % ctx.nshards != ctx.shard:
            continue
        batch.append(rule)
        if len(batch) == 24:
            if ctx.time_up():
                ctx.inconclusive = True
                complete = False
                break
            flush()
            nbatch += 1
            if nbatch == 3:
                ctx.sample({"rule": batch[5]}, cap=1)
            batch = []
    if batch and complete:
        flush()
    if complete:
        ctx.exhaustive = "all canonical rules rank<=%d, <=%d variables x {none, optimal}, deterministic" % (max_rank, max_vars)


def gen_enum_markov(ctx):
    quick = ctx.tier == "quick"
    stride = 5 if quick else 1
    combos = [(v, h, nf, ro) for v in range(4) for h in range(4) for nf in (False, True) for ro in ("none", "optimal")]
    n = 0
    for index, (func, lin) in enumerated(4, 7):
        if len(func) - 1 < 3 or index % stride != 0:
            continue
        n += 1
        if n % ctx.nshards != ctx.shard:
            continue
        if ctx.time_up():
            ctx.inconclusive = True
            break
        # the same rule under two parents, plus a sibling rule sharing its first two rhs labels
        verts = [[["%s%d" % (func[0], len(lin)), "P1", "Q2"], 1], [["%s%d" % (func[0], len(lin)), "R1"], 2]]
        for v, h, nf, ro in combos[n % 2::2] if quick else combos:
            case = {"reordering": ro, "v": v, "h": h, "nofanout": nf, "rules": [[list(func), lin, verts]]}
            try:
                ctx.run_case(check_markov, case)
            except Violation as vio:
                ctx.record(vio)
            ctx.count(nontrivial=True, by_construction=True, classes=["markov:rank=%d" % (len(func) - 1), "markov:v=%d" % v, "markov:h=%d" % h])
        if n % 97 == 0:
            ctx.sample({"rule": [func, lin], "vertical_contexts": verts}, cap=1)


def gen_treebank(ctx):
    quick = ctx.tier == "quick"

    @st.composite
    def cases(draw):
        return {"bank": draw(treebank(8 if quick else 11, 5)), "reordering": draw(st.sampled_from(["none", "optimal"])),
                "markov": draw(st.booleans()), "v": draw(st.integers(0, 3)), "h": draw(st.integers(0, 3)), "nofanout": draw(st.booleans())}

    def body(case):
        check_treebank(case)
        gram, _ = lcfrs.extract_treebank(case["bank"])
        rank = max(len(f) - 1 for f in gram)
        ctx.count(key=case, nontrivial=rank >= 3, classes=["treebank:maxrank=%d" % min(rank, 5), "treebank:markov" if case["markov"] else "treebank:det"])
        if rank >= 4:
            ctx.sample({k: v for k, v in case.items() if k != "bank"}, cap=1)
    ctx.hyp(cases(), body, max_examples=500 if quick else 3000)


def check_treebank(case):
    gram, _lex = lcfrs.extract_treebank(case["bank"])
    rules = [[list(f), l, [[list(v), c] for v, c in gram[f][l].items()]] for f in gram for l in gram[f]]
    if case["markov"]:
        check_markov({"reordering": case["reordering"], "v": case["v"], "h": case["h"], "nofanout": case["nofanout"], "rules": rules})
    else:
        check_deterministic({"reordering": case["reordering"], "rules": [r[:2] for r in rules]})


UNITS = [Unit("enum_det", gen_enum_det, check_deterministic, shards=(8, 16)),
         Unit("enum_markov", gen_enum_markov, check_markov, shards=(8, 16)),
         Unit("treebank", gen_treebank, check_treebank, shards=(2, 8))]
