"""C17 - output splitting partitions the treebank in order into well-formed parts."""
import contextlib
import io
import itertools
import os
import shutil
import tempfile
from hypothesis import strategies as st

from vlib import model as M
from vlib import strategies as S
from vlib import cli
from vlib import codecs_tree as CT
from vlib.runner import Unit, violation, call, Violation
from vlib.repo import T, treeoutput, treeinput

RULE = ("spec_enum: exhaustively every specification of <= 3 parts (thorough <= 4) over {N#, N%, rest} with N from boundary sets x treebank sizes 0..12 plus "
        "50/100/200/300 (thorough 0..60 plus the large ones), and every single percentage 0..100 x size 0..300, against integer reference arithmetic (absolute "
        "exact, floor(p*size/100), remainder to rest else to the first largest part, sum = size, over-demand rejected); a list of malformed specifications must "
        "be rejected. cli: Hypothesis corpora (0..7 sentences) x destination format x specification x filter_by_length through `treetools transform --split`: "
        "part files decoded with independent decoders and the repository's reader, sizes as the reference says, concatenation = decoded unsplit conversion. "
        "Non-trivial = >= 2 parts with a percentage or rest; distinct by construction (enumeration) / digest (cli).")
ASSUMPTIONS = ["a malformed specification may be rejected with any exception", "negative numbers are not generated"]

ABS = [0, 1, 2, 5, 12, 13]
PCT = [0, 1, 10, 29, 33, 50, 57, 58, 99, 100, 101]


def reference(spec, size):
    """-> list of part sizes, or None when the specification must be rejected"""
    parts = []
    rest = None
    for i, item in enumerate(spec.split("_")):
        if item == "rest":
            if rest is not None:
                return None
            rest = i
            parts.append(0)
        elif item.endswith("%") and item[:-1].isdigit():
            parts.append(int(item[:-1]) * size // 100)
        elif item.endswith("#") and item[:-1].isdigit():
            parts.append(int(item[:-1]))
        else:
            return None
    total = sum(parts)
    if total > size:
        return None
    if total < size:
        if rest is not None:
            parts[rest] = size - total
        else:
            parts[parts.index(max(parts))] += size - total
    return parts


def check_spec(case):
    spec, size = case["spec"], case["size"]
    exp = reference(spec, size)
    err = io.StringIO()
    got = None
    raised = None
    with contextlib.redirect_stderr(err):
        try:
            got = treeoutput.parse_split_specification(spec, size)
        except Exception as exc:  # rejection may use any exception
            raised = exc
    if exp is None:
        if raised is None:
            raise violation("C17/spec/accepted-invalid", "specification %r for %d trees accepted as %r" % (spec, size, got))
        return None
    if raised is not None:
        raise violation("C17/spec/rejected-valid", "specification %r for %d trees rejected: %s: %s" % (spec, size, type(raised).__name__, raised))
    if list(got) != exp:
        kind = "percentage-rounding" if "%" in spec and len(got) == len(exp) and sum(got) == size else "sizes"
        raise violation("C17/spec/" + kind, "specification %r for %d trees gives %r, expected %r" % (spec, size, list(got), exp))
    if any((not isinstance(x, int)) or x < 0 for x in got) or sum(got) != size:
        raise violation("C17/spec/not-a-partition", "%r" % (got,))
    return exp


def specs(max_parts, abs_set, pct_set):
    items = ["%d#" % n for n in abs_set] + ["%d%%" % n for n in pct_set] + ["rest"]
    for k in range(1, max_parts + 1):
        for combo in itertools.product(items, repeat=k):
            if combo.count("rest") <= 1:
                yield "_".join(combo)


def gen_spec_enum(ctx):
    quick = ctx.tier == "quick"
    sizes = list(range(0, 13 if quick else 61)) + [50, 100, 200, 300]
    complete = True
    index = 0
    for spec in specs(3 if quick else 4, ABS, PCT if quick else PCT + [3, 7, 66]):
        index += 1
        if index % ctx.nshards != ctx.shard:
            continue
        if index % 512 == ctx.shard and ctx.time_up():
            ctx.inconclusive = True
            complete = False
            break
        nparts = spec.count("_") + 1
        interesting = nparts >= 2 and ("%" in spec or "rest" in spec)
        for size in sizes:
            case = {"spec": spec, "size": size}
            try:
                ctx.run_case(check_spec, case)
            except Violation as vio:
                ctx.record(vio)
            ctx.count(nontrivial=interesting, by_construction=True, classes=["spec:parts=%d" % nparts])
        if interesting and "29%" in spec and len(ctx.samples) < 2:
            ctx.sample({"spec": spec, "size": 100, "parts": reference(spec, 100)})
    if ctx.shard == 0:
        for pct in range(0, 101):
            for size in range(0, 301):
                for spec in ("%d%%_rest" % pct, "%d%%" % pct):
                    try:
                        ctx.run_case(check_spec, {"spec": spec, "size": size})
                    except Violation as vio:
                        ctx.record(vio)
                ctx.count(nontrivial=True, by_construction=True, classes=["spec:single-percentage"])
                ctx.evaluations += 1
    if complete:
        ctx.exhaustive = "all specifications of <= %d parts over %d item kinds x %d sizes; all single percentages 0..100 x sizes 0..300" % (3 if quick else 4, len(ABS) + len(PCT) + 1, len(sizes))


MALFORMED = ["rest_rest", "5#_rest_rest", "foo", "5", "5$", "#", "%", "_", "5#_", "_5#", "5#__5#", "rest5", "5#_bar", "ten%", "1.5#", "", "REST", "5#_10%_x",
             "-5#_rest", "-1#", "-50%_rest", "5#_-1#_rest"]       # a negative number is not a size


def gen_malformed(ctx):
    for spec in MALFORMED:
        for size in (0, 5, 100):
            case = {"spec": spec, "size": size}
            try:
                ctx.run_case(check_spec, case)
            except Violation as vio:
                ctx.record(vio)
            ctx.count(key=case, nontrivial=True, classes=["spec:malformed"])


# ----------------------------------------------------------------------------------------------- CLI

def decode_file(fmt, path, opts):
    """independent decoding of a destination file -> list of comparable trees"""
    enc = opts.get("enc", "utf-8")
    with open(path, "rb") as stream:
        data = stream.read()
    if fmt == "tigerxml":
        return [(c["sid"], M.canon(c["root"], ("w", "p", "m", "e", "lem"), ("l", "e"))) for c in CT.decode_tigerxml(data)]
    try:
        text = data.decode(enc)
    except UnicodeDecodeError as exc:
        raise CT.DecodeError("file is not %s: %s" % (enc, exc))
    if fmt == "export":
        return [(c["sid"], M.canon(c["root"], ("w", "p", "m", "e"), ("l", "e"))) for c in CT.decode_export(text, v4=False)]
    if fmt in ("brackets", "discobrackets"):
        return [(None, M.canon(r, ("w", "p"), ("l",))) for r in CT.decode_brackets(text, disco=(fmt == "discobrackets"))]
    if fmt == "terminals":
        lines = text.split("\n")
        return [(None, tuple(l.split())) for l in lines[:-1]]
    raise AssertionError(fmt)


def own_reader(fmt, path, enc="utf-8"):
    if fmt == "terminals":
        return None
    with contextlib.redirect_stdout(io.StringIO()), contextlib.redirect_stderr(io.StringIO()):
        return list(getattr(treeinput, fmt)(path, enc, quiet=True))


def check_cli(case):
    fmt = case["fmt"]
    spec = case["spec"]
    tmpdir = tempfile.mkdtemp(prefix="c17_")
    prefix = "C17/cli-" + fmt
    try:
        src = os.path.join(tmpdir, "in.export")
        senc, denc = case.get("src_enc", "utf-8"), case.get("dest_enc", "utf-8")
        with open(src, "w", encoding=senc) as stream:
            stream.write(CT.encode_export(case["trees"]))
        base = ["transform", src]
        tail = ["--src-format", "export", "--dest-format", fmt, "--src-enc", senc, "--dest-enc", denc]
        dopts = {"enc": denc}
        kept = list(case["trees"])
        if case.get("filter"):
            op, val = case["filter"]
            tail += ["--trans", "filter_by_length", "--params", "filteroperator:%s" % op, "filtervalue:%d" % val]
            kept = [t for t in kept if not ((op == "lt" and len(M.toks(t["root"])) < val) or (op == "gt" and len(M.toks(t["root"])) > val)
                                            or (op == "eq" and len(M.toks(t["root"])) == val))]
        whole = os.path.join(tmpdir, "whole")
        res = cli.run_sub(base + [whole] + tail)
        if res.code != 0:
            raise violation(prefix + "/unsplit-exit-status", "exit %d: %s" % (res.code, res.err[-300:]))
        try:
            unsplit = decode_file(fmt, whole, dopts)
        except CT.DecodeError as exc:
            raise violation(prefix + "/unsplit-undecodable", str(exc))
        if len(unsplit) != len(kept):
            raise violation(prefix + "/unsplit-count", "%d trees written, %d expected" % (len(unsplit), len(kept)))
        exp = reference(spec, len(kept))
        dest = os.path.join(tmpdir, "part")
        res = cli.run_sub(base + [dest] + tail + ["--split", spec])
        if exp is None:
            if res.code == 0:
                raise violation(prefix + "/invalid-spec-accepted", "specification %r for %d trees: exit 0" % (spec, len(kept)))
            return None
        if res.code != 0:
            raise violation(prefix + "/exit-status", "specification %r for %d trees: exit %d: %s" % (spec, len(kept), res.code, res.err[-300:]))
        files = sorted(f for f in os.listdir(tmpdir) if f.startswith("part."))
        if files != sorted("part.%d" % i for i in range(len(exp))):
            raise violation(prefix + "/part-files", "files %r for %d parts" % (files, len(exp)))
        joined = []
        for i, size in enumerate(exp):
            path = "%s.%d" % (dest, i)
            try:
                part = decode_file(fmt, path, dopts)
            except CT.DecodeError as exc:
                raise violation(prefix + "/part-not-a-complete-file", "part %d (%d trees): %s" % (i, size, exc))
            if len(part) != size:
                raise violation(prefix + "/part-size", "part %d has %d trees, specification %r of %d trees gives %r" % (i, len(part), spec, len(kept), exp))
            try:
                own = own_reader(fmt, path, denc)
            except Exception as exc:  # noqa
                raise violation(prefix + "/part-rejected-by-own-reader", "part %d: %s: %s" % (i, type(exc).__name__, exc))
            if own is not None and len(own) != size:
                raise violation(prefix + "/part-own-reader-count", "part %d: own reader yields %d trees, expected %d" % (i, len(own), size))
            joined.extend(part)
        if fmt in ("brackets", "discobrackets", "terminals"):
            if [x[1] for x in joined] != [x[1] for x in unsplit]:
                raise violation(prefix + "/parts-differ-from-unsplit", "concatenated parts differ from the unsplit conversion")
        elif joined != unsplit:
            raise violation(prefix + "/parts-differ-from-unsplit", "concatenated parts differ from the unsplit conversion")
        return exp
    finally:
        shutil.rmtree(tmpdir, ignore_errors=True)


@st.composite
def cli_case(draw):
    fmt = draw(st.sampled_from(["export", "brackets", "discobrackets", "tigerxml", "terminals", "tigerxml"]))
    tree = S.tree_model(max_tokens=5, disc=0.0 if fmt == "brackets" else 0.4, words=st.sampled_from(["a", "b", "Haus", "ä", "x&y", "Mädchen"]),
                        labels=st.sampled_from(["S", "NP"]), pos=st.sampled_from(["NN", "VB"]))
    trees = draw(st.lists(tree, min_size=0, max_size=7))
    for i, t in enumerate(trees):
        t["sid"] = i + 1
    items = st.one_of(st.sampled_from(["rest", "0#", "1#", "2#", "50%", "29%", "100%", "34%", "0%"]))
    spec = "_".join(draw(st.lists(items, min_size=1, max_size=3)))
    filt = draw(st.sampled_from([None, None, ("lt", 3), ("gt", 3), ("eq", 2)]))
    return {"fmt": fmt, "trees": trees, "spec": spec, "filter": filt, "src_enc": draw(st.sampled_from(["utf-8", "utf-8", "latin-1"])),
            "dest_enc": draw(st.sampled_from(["utf-8", "utf-8", "latin-1", "utf-16"]))}


def gen_cli(ctx):
    quick = ctx.tier == "quick"

    def body(case):
        exp = check_cli(case)
        classes = ["cli:" + case["fmt"], "cli:rejected" if exp is None else "cli:parts=%d" % len(exp)]
        if case["filter"]:
            classes.append("cli:filter")
        ctx.count(key=case, nontrivial=exp is not None and len(exp) >= 2, classes=classes)
        if exp is not None and len(exp) >= 2 and len(case["trees"]) >= 4:
            ctx.sample({"fmt": case["fmt"], "spec": case["spec"], "filter": case["filter"], "sentences": len(case["trees"]), "parts": exp}, cap=2)
    if ctx.shard == 0:
        # more than ten parts (two-digit part numbers, n-fold cross-validation): the parts in NUMERIC order are the corpus
        for fmt, nparts, ntrees in (("export", 11, 14), ("discobrackets", 12, 30), ("tigerxml", 13, 13), ("discobrackets", 0, 260), ("export", 0, 400)):
            trees = []
            for i in range(ntrees):
                toks = [{"w": "w%d" % i, "p": "NN", "n": 1, "e": "--", "lem": "--", "m": "--"}, {"w": "x", "p": "VB", "n": 2, "e": "--", "lem": "--", "m": "--"}]
                trees.append({"sid": i + 1, "root": {"l": "VROOT", "e": "--", "lem": "--", "m": "--", "c": [{"l": "S", "e": "--", "lem": "--", "m": "--", "c": toks}]}})
            spec = "_".join(["1#"] * (nparts - 2) + ["2#", "rest"]) if nparts else ("150#_rest" if ntrees == 260 else "10%_55%_rest")   # parts of more than 100 trees
            case = {"fmt": fmt, "trees": trees, "spec": spec, "filter": None, "src_enc": "utf-8", "dest_enc": "utf-8"}
            try:
                ctx.run_case(body, case)
            except Violation as vio:
                ctx.record(vio)
    ctx.hyp(cli_case(), body, max_examples=12 if quick else 100, shrink=False,
            smaller=lambda c: [dict(c, trees=c["trees"][:i] + c["trees"][i + 1:]) for i in range(len(c["trees"]))] + ([dict(c, filter=None)] if c["filter"] else []))


UNITS = [Unit("spec_enum", gen_spec_enum, check_spec, shards=(6, 16)),
         Unit("malformed", gen_malformed, check_spec, shards=(1, 1)),
         Unit("cli", gen_cli, check_cli, shards=(6, 10))]
