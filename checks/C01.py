"""C01 - readers decode every well-formed treebank file faithfully."""
import contextlib
import gzip
import io
import itertools
import os
import random
import re
import tempfile
from hypothesis import strategies as st

from vlib import model as M
from vlib import strategies as S
from vlib import codecs_tree as CT
from vlib.runner import Unit, violation, call, Violation
from vlib.repo import T, treeinput

RULE = ("corpora: Hypothesis corpora of 1..4/8 sentences (<=8/14 tokens, all shapes; labels built from parts category[-function][=gap][-coindex]['] so the "
        "expected split is known) encoded by independent encoders with drawn layout (export v3/v4, header, comments, secondary-edge columns, tabs/blanks, "
        "shuffled constituent lines and arbitrary numbering in 500..999; brackets with arbitrary whitespace at every optional position, empty/labelled root, "
        "several sentences per line, material outside groups, (word) preterminals; discobrackets in the documented layout; TIGER-XML with permuted attributes, "
        "nt and edge order, secedge noise, id styles, utf-8/iso-8859-1), plain or .gz, reader options drawn from the documented set. The reader must yield "
        "one well-formed tree per sentence in order, equal to model + independent expectation function of the options; quiet => no output. "
        "bracket_strings: exhaustively every string over {( ) blank a b} up to length 7/9 x emptypos: a hand-written recogniser decides trees* error?; the "
        "reader must yield the same trees and raise ValueError exactly for ill-formed input. bracket_edits: single-character edits of well-formed files; bracket_random: random strings up to 40 pieces over a richer alphabet, same oracle. "
        "Non-trivial (corpora) = >=2 sentences or discontinuous/unary-root/one-token shape or a non-default option or a special character.")
ASSUMPTIONS = ["independent encoders in vlib/codecs_tree.py; expectation functions in checks/C01.py derived from the option documentation",
               "not generated because the format cannot carry it: whitespace/control characters, empty fields, export words #ddd/#BOS/#EOS, all-digit export edge labels, "
               "parentheses in bracket-format labels and tokens",
               "gf_split with a non-default separator only on labels without co-index; disco_reordered only checked structurally; fields no format encodes "
               "(root edge/lemma/morph, lemma/morph of constituents, lemma of bracket tokens) are not compared"]

COUNTER = itertools.count()


# --------------------------------------------------------------------------------------------- expectation

def split_label(parts, sep, do_split):
    """-> (label, gf or None)"""
    full = parts["cat"] + ((sep + parts["gf"]) if parts["gf"] else "") + (("=" + parts["gap"]) if parts["gap"] else "") \
        + (("-" + parts["co"]) if parts["co"] else "") + parts["head"]
    if not do_split:
        return full, None
    label = parts["cat"] + (("=" + parts["gap"]) if parts["gap"] else "") + (("-" + parts["co"]) if parts["co"] else "") + parts["head"]
    return label, (parts["gf"] or "--")


def expected_model(fmt, case, opts, v4=True):
    """Model the reader must deliver for this format and these options."""
    sep = opts.get("gf_separator", "-")
    split = "gf_split" in opts
    paren = "replace_parens" in opts
    out = []
    novroot = fmt == "tigerxml" and tiger_without_vroot(case)
    for tree in case["trees"]:
        def rec(node, is_root):
            new = {}
            if M.is_tok(node):
                label, gf = split_label(node["parts"], sep, split)
                new = {"w": node["w"], "p": label, "n": node["n"]}
                if fmt in ("export", "tigerxml"):
                    new["e"] = node.get("e") or "--"
                    new["m"] = node.get("m") or "--"
                    new["lem"] = (node.get("lem") or "--") if (fmt == "tigerxml" or v4) else "--"
                else:
                    new["e"] = "--"
                    new["m"] = "--"
                    new["lem"] = None
                    if "brackets_emptypos" in opts and case.get("emptypos"):
                        new["p"] = "EMPTY"
                        gf = None
                if gf is not None:
                    new["e"] = gf
            else:
                if is_root and fmt in ("brackets", "discobrackets") and not case.get("root_label", True):
                    label, gf = "VROOT", None
                elif is_root and fmt in ("export",):
                    label, gf = "VROOT", None
                else:
                    label, gf = split_label(node["parts"], sep, split)
                new = {"l": label, "c": [rec(c, False) for c in node["c"]]}
                new["e"] = (node.get("e") or "--") if fmt in ("export", "tigerxml") else "--"
                if fmt == "tigerxml" and novroot and any(c is node for c in tree["root"]["c"]):
                    new["e"] = "--"   # without the VROOT nonterminal the file has no edge for the top constituent
                if gf is not None:
                    new["e"] = gf
                if is_root:
                    new["e"] = None
            if paren:
                for key in ("w", "p", "l", "e", "m", "lem"):
                    if new.get(key) is not None:
                        new[key] = CT.replace_parens(new[key])
            return new
        out.append(rec(tree["root"], True))
    return out


def expected_sids(fmt, case, opts):
    n = len(case["trees"])
    if fmt in ("brackets", "discobrackets"):
        first = opts.get("brackets_firstid", 1)
        return list(range(first, first + n))
    if "continuous" in opts:
        return list(range(1, n + 1))
    return [t["sid"] for t in case["trees"]]


# --------------------------------------------------------------------------------------------- encoding with layout

def tiger_without_vroot(case):
    """the corpus is written without the VROOT nonterminals (the reader must add them): only when drawn and every root
    has exactly one constituent child"""
    return bool(case.get("tiger_novroot")) and case.get("layout", 0) != 0 and \
        all(len(t["root"]["c"]) == 1 and not M.is_tok(t["root"]["c"][0]) and t["root"]["c"][0]["parts"]["cat"] != "VROOT" for t in case["trees"])


def layout_rng(seed):
    return random.Random(seed) if seed else None


def encode(fmt, case):
    rng = layout_rng(case.get("layout", 0))
    trees = []
    for tree in case["trees"]:
        # labels as strings
        def conv(node):
            new = dict(node)
            label, _ = split_label(node["parts"], case["opts"].get("gf_separator", "-") if "gf_split" in case["opts"] else "-", False)
            if M.is_tok(node):
                new["p"] = label
            else:
                new["l"] = label
                new["c"] = [conv(c) for c in node["c"]]
            return new
        trees.append({"sid": tree["sid"], "root": conv(tree["root"])})
    if fmt == "export":
        v4 = case.get("v4", True)
        if rng is None:
            return CT.encode_export(trees, v4=v4)
        out = []
        if rng.random() < 0.4:
            out.append("%% corpus\n#FORMAT %d\n#BOT ORIGIN\n0 x\n#EOT ORIGIN\n" % (4 if v4 else 3))
        for tree in trees:
            ncons = len(M.constituents(tree["root"])) - 1
            numbers = rng.sample(range(500, 1000), ncons) if rng.random() < 0.5 else None
            order = list(range(ncons))
            if rng.random() < 0.5:
                rng.shuffle(order)
            text = CT.encode_export_sentence(tree, v4=v4, sep=rng.choice(["\t", "  ", "\t\t", " \t "]), numbers=numbers, con_order=None,
                                             secedges=rng.random() < 0.3, comment=rng.random() < 0.3,
                                             bos_extra=rng.choice(["", " 3 1234 0", " 1 2 3 %% note"]))
            lines = text.split("\n")[:-1]
            ntok = len(M.toks(tree["root"]))
            cons = lines[1 + ntok:-1]
            cons = [cons[i] for i in order]
            lines = [lines[0]] + lines[1:1 + ntok] + cons + [lines[-1]]
            if rng.random() < 0.3:
                lines = [l + rng.choice(["", " ", "\t"]) for l in lines]
            out.append("\n".join(lines) + "\n" + rng.choice(["", "\n", "%% between\n"]))
        return "".join(out)
    if fmt == "brackets":
        if rng is None:
            ws = lambda kind: " " if kind == "req" else ""
            between, junk = "\n", ""
        else:
            ws = lambda kind: rng.choice([" ", "\t", "\n", "  ", " \n "]) if kind == "req" else rng.choice(["", "", " ", "\n", "\t ", "  "])
            between = None
        out = []
        for tree in trees:
            out.append(CT.encode_brackets_tree(tree["root"], ws, emptypos=case.get("emptypos", False), root_label=case.get("root_label", True)))
            if rng is None:
                out.append("\n")
            else:
                out.append(rng.choice(["\n", " ", "", "\n\n", " %%x \n", " ) a\n"]))
        return "".join(out)
    if fmt == "discobrackets":
        text = CT.encode_discobrackets(trees, root_label=case.get("root_label", True))
        if rng is not None and rng.random() < 0.3:
            text = text[:-1]     # last line without final newline
        return text
    if fmt == "tigerxml":
        if rng is None:
            return CT.encode_tigerxml(trees, encoding=case.get("xmlenc", "utf-8"))
        def perm(items):
            items = list(items)
            rng.shuffle(items)
            return items
        vroot = not tiger_without_vroot(case)
        style = rng.choice(["t%d", "w%d_x", "down"])
        tid = (lambda n: "t%d" % (90 - n)) if style == "down" else (lambda n: style % n)
        return CT.encode_tigerxml(trees, encoding=case.get("xmlenc", "utf-8"), sid_format=rng.choice(["%d", "s%d", "s3_%d", "doc7_s%d"]),
                                  perm=perm, secedges=rng.random() < 0.3, vroot=vroot, tid=tid)
    raise AssertionError(fmt)


# --------------------------------------------------------------------------------------------- check

def read_all(prefix, fmt, path, enc, opts, allowed=()):
    out, err = io.StringIO(), io.StringIO()
    with contextlib.redirect_stdout(out), contextlib.redirect_stderr(err):
        trees = call(prefix, lambda: list(getattr(treeinput, fmt)(path, enc, **opts)), _allowed=allowed)
    return trees, out.getvalue(), err.getvalue()


def check_corpus(case):
    fmt = case["fmt"]
    opts = dict(case["opts"])
    prefix = "C01/" + fmt
    text = encode(fmt, case)
    enc = case.get("enc", "utf-8")
    if fmt == "tigerxml":
        data = text.encode("iso-8859-1" if case.get("xmlenc") == "iso-8859-1" else "utf-8")
    else:
        data = text.encode(enc)
    suffix = "." + fmt + (".gz" if case.get("gz") else "")
    # the same file name is rewritten by consecutive cases of this process: a reader (or gunzip) that remembers a
    # file by its name alone would deliver stale content
    path = os.path.join(tempfile.gettempdir(), "c01_%d%s" % (os.getpid(), suffix))
    with (gzip.open(path, "wb") if case.get("gz") else open(path, "wb")) as stream:
        stream.write(data)
    try:
        trees, out, err = read_all(prefix, fmt, path, enc, opts)
    finally:
        os.remove(path)
    if "quiet" in opts and (out or err):
        raise violation(prefix + "/quiet-not-quiet", "reader printed %r / %r although quiet" % (out[:80], err[:80]))
    expected = expected_model(fmt, case, opts, v4=case.get("v4", True))
    if len(trees) != len(expected):
        raise violation(prefix + "/number-of-trees", "%d trees yielded for %d sentences (messages: %r)" % (len(trees), len(expected), err[-200:]))
    sids = expected_sids(fmt, case, opts)
    reordered = fmt == "discobrackets" and "disco_reordered" in opts
    for i, (tree, exp) in enumerate(zip(trees, expected)):
        try:
            got, _ = M.snapshot(tree)
        except M.Malformed as bad:
            raise violation(prefix + "/malformed:" + bad.reason, "sentence %d: %s" % (i + 1, bad))
        if tree.data.get("sid") != sids[i]:
            raise violation(prefix + "/sid", "sentence %d has sid %r, expected %r" % (i + 1, tree.data.get("sid"), sids[i]))
        if reordered:
            # structural check only: bracket order kept, words of the form index-token
            order = [t["n"] for t in CT.iter_tokens(sorted_textual(case["trees"][i]["root"]))]
            words = [t["w"] for t in M.toks(got)]
            if len(words) != len(order) or any(not re.match(r"%d-" % idx, w) for idx, w in zip(order, words)):
                raise violation(prefix + "/disco_reordered", "words %r for textual index order %r" % (words, order))
            continue
        tok_fields = ("w", "p", "m", "e") if fmt in ("brackets", "discobrackets") else ("w", "p", "lem", "m", "e")
        if got["l"] != exp["l"]:
            raise violation(prefix + "/root-label", "sentence %d: root %r, expected %r" % (i + 1, got["l"], exp["l"]))
        ge, ee = dict(got), dict(exp)
        ge["e"] = ee["e"] = None
        if M.canon(ge, tok_fields, ("l", "e")) != M.canon(ee, tok_fields, ("l", "e")):
            raise violation(prefix + "/" + diff_kind(ge, ee, tok_fields), "sentence %d with options %r: %s" % (i + 1, sorted(opts), diff_detail(ge, ee, tok_fields)))
    return True


def sorted_textual(root):
    """model tree with children in the order the bracket encoder writes them (by leftmost token)"""
    new = dict(root)
    if "c" in root:
        new["c"] = [sorted_textual(c) for c in M.kids(root)]
    return new


def diff_kind(got, exp, tok_fields):
    gt, et = M.toks(got), M.toks(exp)
    if len(gt) != len(et):
        return "token-count"
    for g, e in zip(gt, et):
        for f in tok_fields:
            if g.get(f) != e.get(f):
                return "token-field-" + f
    gl = sorted((n["l"], tuple(M.nums(n))) for n in M.constituents(got))
    el = sorted((n["l"], tuple(M.nums(n))) for n in M.constituents(exp))
    if gl != el:
        if sorted(x[1] for x in gl) == sorted(x[1] for x in el):
            return "constituent-label"
        return "dominance"
    return "constituent-edge-or-attachment"


def diff_detail(got, exp, tok_fields):
    gt, et = M.toks(got), M.toks(exp)
    for g, e in zip(gt, et):
        for f in tok_fields:
            if g.get(f) != e.get(f):
                return "token %d field %s is %r, expected %r" % (e["n"], f, g.get(f), e.get(f))
    gl = sorted((n["l"], n.get("e"), tuple(M.nums(n))) for n in M.constituents(got))
    el = sorted((n["l"], n.get("e"), tuple(M.nums(n))) for n in M.constituents(exp))
    return "constituents %r, expected %r" % ([x for x in gl if x not in el][:3], [x for x in el if x not in gl][:3])


# --------------------------------------------------------------------------------------------- generators

CATS = ["S", "NP", "VP", "PP", "X", "AP"]


@st.composite
def parts(draw, cats, decorated=True, allow_sep_hash=False, with_co=True):
    cat = draw(cats)
    out = {"cat": cat, "gf": "", "gap": "", "co": "", "head": ""}
    if decorated and not any(c in cat for c in "-#='"):
        if draw(st.integers(0, 2)) == 0:
            out["gf"] = draw(st.sampled_from(["SB", "HD", "OA", "MO"]))
        if draw(st.integers(0, 5)) == 0:
            out["gap"] = str(draw(st.integers(1, 3)))
        if with_co and draw(st.integers(0, 4)) == 0:
            out["co"] = str(draw(st.integers(1, 12)))
        if draw(st.integers(0, 6)) == 0:
            out["head"] = "'"
    return out


def word_alphabet(fmt, enc):
    brackets = fmt in ("export", "tigerxml")
    nonascii = True
    astral = enc == "utf-8"
    base = S.rich_words(brackets=brackets, nonascii=nonascii, astral=astral)
    if enc in ("latin-1", "iso-8859-1"):
        base = base.map(lambda w: "".join(c for c in w if ord(c) < 256) or "w")
    paren_family = st.sampled_from(["-LRB-", "-RRB-", "-LSB-", "-RCB-"])

    def safe(word):
        if re.match(r"#[0-9]{3}\Z", word) or word.startswith("#BOS") or word.startswith("#EOS") or word.startswith("%%"):
            return "w" + word
        return word
    extra = st.one_of(paren_family, st.sampled_from(["#1", "#42", "#1234"]))   # '#' + exactly three digits would be a node reference
    if fmt != "export":
        # no-break / ideographic spaces are ordinary characters of a token in the formats whose tokens are delimited by ASCII
        # whitespace or XML attributes (the export reader documents whitespace-separated columns and cannot carry them)
        extra = st.one_of(extra, st.sampled_from(["10\u00a0000", "x\u00a0"] + (["a\u3000b"] if enc == "utf-8" else [])))
    return st.one_of(base, base, extra).map(safe)


@st.composite
def corpus_case(draw, max_tokens, max_sents):
    fmt = draw(st.sampled_from(["export", "brackets", "discobrackets", "tigerxml"]))
    opts = {}
    if draw(st.integers(0, 1)):
        opts["quiet"] = True
    if draw(st.integers(0, 2)) == 0:
        opts["gf_split"] = True
    hash_sep = False
    if "gf_split" in opts and draw(st.integers(0, 2)) == 0:
        opts["gf_separator"] = draw(st.sampled_from(["#", "-"]))
        hash_sep = opts["gf_separator"] != "-"
    if draw(st.integers(0, 3)) == 0:
        opts["replace_parens"] = True
    if fmt in ("export", "tigerxml") and draw(st.integers(0, 3)) == 0:
        opts["continuous"] = True
    if fmt in ("brackets", "discobrackets") and draw(st.integers(0, 3)) == 0:
        opts["brackets_firstid"] = draw(st.one_of(st.sampled_from([0, 0, 1, 1000]), st.integers(0, 500)))
    emptypos = False
    if fmt == "brackets" and draw(st.integers(0, 3)) == 0:
        opts["brackets_emptypos"] = True
        emptypos = draw(st.booleans())
    if fmt == "discobrackets" and draw(st.integers(0, 5)) == 0:
        opts["disco_reordered"] = True
    enc = "utf-8"
    xmlenc = "utf-8"
    if fmt == "tigerxml":
        xmlenc = draw(st.sampled_from(["utf-8", "utf-8", "iso-8859-1"]))
    elif draw(st.integers(0, 3)) == 0:
        enc = "latin-1"
    words = word_alphabet(fmt, xmlenc if fmt == "tigerxml" else enc)
    if fmt == "discobrackets" and "disco_reordered" in opts:
        words = st.sampled_from(["a", "b", "c"])
    disc = 0.0 if fmt == "brackets" else 0.5
    decorated = draw(st.booleans()) or "gf_split" in opts
    edges = st.sampled_from(["HD", "SB", "--", "OA", "O-A", "X1"])
    tree = S.tree_model(max_tokens=max_tokens, disc=disc, words=words, lemmas=words, edges=edges, fields="full",
                        morphs=st.sampled_from(["--", "Nom.Sg", "3.Sg.Pres", "*", "3", "12"]), sid=st.integers(1, 9999))
    trees = draw(S.corpus(tree, 1, max_sents))
    pos_cats = st.sampled_from(["NN", "VVFIN", "ART", "$,", "$.", "ADJA", "-LRB-" if fmt != "discobrackets" else "PX"])
    for t in trees:
        for node in M.preorder(t["root"]):
            if M.is_tok(node):
                cats = pos_cats if fmt in ("export", "tigerxml") else st.sampled_from(["NN", "VVFIN", "ART", "$,", "$.", "-LRB-"])
                node["parts"] = draw(parts(cats, decorated and draw(st.integers(0, 2)) == 0, with_co=not hash_sep))
            elif node is t["root"]:
                node["parts"] = {"cat": "VROOT", "gf": "", "gap": "", "co": "", "head": ""}
            else:
                node["parts"] = draw(parts(st.sampled_from(CATS), decorated, with_co=not hash_sep))
    case = {"fmt": fmt, "opts": opts, "trees": trees, "layout": draw(st.integers(0, 10 ** 6)), "gz": fmt != "tigerxml" and draw(st.integers(0, 4)) == 0,
            "enc": enc, "xmlenc": xmlenc, "v4": draw(st.booleans()), "emptypos": emptypos, "root_label": draw(st.booleans()),
            "tiger_novroot": draw(st.integers(0, 3)) == 0}
    return case


def classes_of(case):
    out = ["fmt=" + case["fmt"]]
    if len(case["trees"]) >= 2:
        out.append("sentences>=2")
    for t in case["trees"]:
        root = t["root"]
        if M.tree_gapdeg(root) > 0:
            out.append("discontinuous")
        if len(root["c"]) == 1:
            out.append("unary-root")
        if len(M.toks(root)) == 1:
            out.append("one-token")
    for name in case["opts"]:
        if name != "quiet":
            out.append("opt:" + name)
    text = "".join(tok["w"] for t in case["trees"] for tok in M.toks(t["root"]))
    if any(ord(c) > 127 for c in text):
        out.append("non-ascii")
    if any(c in text for c in "&<>\"'"):
        out.append("xml-special")
    if case["gz"]:
        out.append("gzip")
    if case["fmt"] == "export":
        out.append("export-v4" if case["v4"] else "export-v3")
    return sorted(set(out))


def gen_corpora(ctx):
    quick = ctx.tier == "quick"

    def body(case):
        check_corpus(case)
        classes = classes_of(case)
        ctx.count(key=case, nontrivial=len(classes) > 1 + (case["fmt"] == "export"), classes=classes)
        if len(classes) >= 6:
            ctx.sample({"fmt": case["fmt"], "opts": case["opts"], "file": encode(case["fmt"], case)[:1500]}, cap=3)
    ctx.hyp(corpus_case(8 if quick else 14, 4 if quick else 8), body, max_examples=900 if quick else 2500, shrink=False, smaller=smaller_corpus)


def smaller_corpus(case):
    """greedy reduction candidates (Hypothesis shrinking of whole corpora is too slow for the quick tier)"""
    out = []
    for i in range(len(case["trees"])):
        if len(case["trees"]) > 1:
            out.append(dict(case, trees=case["trees"][:i] + case["trees"][i + 1:]))
    for name in case["opts"]:
        if name != "gf_split" or "gf_separator" not in case["opts"]:
            out.append(dict(case, opts={k: v for k, v in case["opts"].items() if k != name}))
    if case.get("layout"):
        out.append(dict(case, layout=0))
    if case.get("gz"):
        out.append(dict(case, gz=False))
    if case.get("enc") != "utf-8":
        out.append(dict(case, enc="utf-8"))
    return out


UNITS = [Unit("corpora", gen_corpora, check_corpus, shards=(4, 16))]


# --------------------------------------------------------------------------------------------- bracket automaton

def lex(text):
    """maximal runs: '(' ')' WS TOKEN"""
    out = []
    i = 0
    while i < len(text):
        ch = text[i]
        if ch in "()":
            out.append((ch, ch))
            i += 1
        elif ch in " \t\n\r\x0b\x0c":
            j = i
            while j < len(text) and text[j] in " \t\n\r\x0b\x0c":
                j += 1
            out.append(("WS", text[i:j]))
            i = j
        else:
            j = i
            while j < len(text) and text[j] not in "() \t\n\r\x0b\x0c":
                j += 1
            out.append(("TOKEN", text[i:j]))
            i = j
    return out


class Ill(Exception):
    pass


def recognise(text, emptypos):
    """Hand-written recursive-descent recogniser of the documented bracket grammar.
    -> (list of trees, ill_formed flag).  Trees: ('N', label, (children...)) / ('T', pos, word)."""
    toks = lex(text)
    pos = [0]

    def peek():
        return toks[pos[0]][0] if pos[0] < len(toks) else "EOF"

    def skip_ws():
        while peek() == "WS":
            pos[0] += 1

    def group(is_root):
        # '(' already consumed
        skip_ws()
        kind = peek()
        if kind == "TOKEN":
            label = toks[pos[0]][1]
            pos[0] += 1
        elif kind == "(" and is_root:
            label = "VROOT"
            return ("N", label, children())
        else:
            raise Ill("label expected")
        kind = peek()
        if kind == "WS":
            skip_ws()
            kind = peek()
            if kind == "TOKEN":
                word = toks[pos[0]][1]
                pos[0] += 1
                skip_ws()
                if peek() != ")":
                    raise Ill(") expected after word")
                pos[0] += 1
                return ("T", label, word)
            if kind == "(":
                return ("N", label, children())
            raise Ill("word or child expected")
        if kind == "(":
            return ("N", label, children())
        if kind == ")":
            if not emptypos:
                raise Ill("empty POS not allowed")
            pos[0] += 1
            return ("T", "EMPTY", label)
        raise Ill("unexpected end")

    def children():
        out = []
        while True:
            skip_ws()
            kind = peek()
            if kind == "(":
                pos[0] += 1
                out.append(group(False))
            elif kind == ")":
                if not out:
                    raise Ill("constituent without children")
                pos[0] += 1
                return tuple(out)
            else:
                raise Ill("( or ) expected")

    trees = []
    try:
        while pos[0] < len(toks):
            kind = peek()
            pos[0] += 1
            if kind == "(":
                trees.append(group(True))
        return trees, False
    except Ill:
        return trees, True


def raw_tree(node):
    if len(node.children) == 0:
        return ("T", node.data.get("label"), node.data.get("word"))
    return ("N", node.data.get("label"), tuple(raw_tree(c) for c in node.children))


PATHS = {}


def check_string(case):
    """case: {"text": str, "emptypos": bool}"""
    text, emptypos = case["text"], case["emptypos"]
    path = PATHS.get(os.getpid())
    if path is None:
        path = PATHS[os.getpid()] = os.path.join(tempfile.gettempdir(), "c01_str_%d.brackets" % os.getpid())
    with open(path, "w", encoding="utf-8") as stream:
        stream.write(text)
    opts = {"quiet": True}
    if emptypos:
        opts["brackets_emptypos"] = True
    exp_trees, ill = recognise(text, emptypos)
    got = []
    raised = None
    out, err = io.StringIO(), io.StringIO()
    with contextlib.redirect_stdout(out), contextlib.redirect_stderr(err):
        try:
            for tree in treeinput.brackets(path, "utf-8", **opts):
                got.append(tree)
        except ValueError as exc:
            raised = exc
        except Exception as exc:  # noqa
            from vlib.runner import repo_frame
            raise violation("C01/automaton/exception:%s@%s" % (type(exc).__name__, repo_frame(exc)), "%r: %s: %s" % (text, type(exc).__name__, exc))
    got_trees = [raw_tree(t) for t in got]
    if ill and raised is None:
        kind = "open-group-at-end-of-input" if lex(text) and recognise(text + ")" * 12, emptypos)[1] is False or unbalanced_open(text) else "ill-formed-accepted"
        raise violation("C01/automaton/" + kind, "ill-formed input %r (emptypos=%r) was read without error as %r" % (text, emptypos, got_trees))
    if not ill and raised is not None:
        raise violation("C01/automaton/well-formed-rejected", "well-formed input %r (emptypos=%r) raised %s" % (text, emptypos, raised))
    if got_trees != exp_trees:
        raise violation("C01/automaton/wrong-trees", "input %r (emptypos=%r) read as %r, grammar gives %r" % (text, emptypos, got_trees, exp_trees))
    for i, tree in enumerate(got):
        if tree.data.get("sid") != i + 1:
            raise violation("C01/automaton/sid", "input %r: tree %d has sid %r" % (text, i + 1, tree.data.get("sid")))
        try:
            M.snapshot(tree)
        except M.Malformed as bad:
            raise violation("C01/automaton/malformed:" + bad.reason, "input %r: %s" % (text, bad))
    return len(exp_trees), ill


def unbalanced_open(text):
    depth = 0
    for ch in text:
        if ch == "(":
            depth += 1
        elif ch == ")" and depth > 0:
            depth -= 1
    return depth > 0


ALPHA = "() ab"


def gen_strings(ctx):
    maxlen = 7 if ctx.tier == "quick" else 9
    complete = True
    index = 0
    for length in range(0, maxlen + 1):
        for tup in itertools.product(ALPHA, repeat=length):
            index += 1
            if index % ctx.nshards != ctx.shard:
                continue
            if index % 4096 == ctx.shard and ctx.time_up():
                ctx.inconclusive = True
                complete = False
                break
            text = "".join(tup)
            for emptypos in (False, True):
                case = {"text": text, "emptypos": emptypos}
                res = []
                try:
                    ctx.run_case(lambda c: res.append(check_string(c)), case)
                except Violation as vio:
                    ctx.record(vio)
                    continue
                ntrees, ill = res[0] if res else (0, False)
                ctx.count(nontrivial=(ntrees > 0 or ill), by_construction=True,
                          classes=["strings:trees>=1" if ntrees else ("strings:ill-formed" if ill else "strings:no-group")] if not emptypos else ())
            if length == 7 and len(ctx.samples) < 2 and text.count("(") == 2 and text.endswith(")") and "a" in text and "b" in text:
                ctx.sample({"text": text, "recognised": recognise(text, False)})
        if not complete:
            break
    if complete:
        ctx.exhaustive = "every string over {( ) blank a b} of length <= %d x brackets_emptypos on/off" % maxlen


@st.composite
def edit_case(draw):
    tree = S.tree_model(max_tokens=5, disc=0.0, words=st.sampled_from(["a", "b", "xy"]), labels=st.sampled_from(["S", "NP"]), pos=st.sampled_from(["N", "V"]))
    trees = draw(st.lists(tree, min_size=1, max_size=2))
    ws_choices = ["", " ", "\n"]
    seedv = draw(st.integers(0, 10 ** 6))
    rng = random.Random(seedv)
    ws = lambda kind: rng.choice([" ", "\n"]) if kind == "req" else rng.choice(ws_choices)
    text = "".join(CT.encode_brackets_tree(t["root"], ws, root_label=draw(st.booleans())) + rng.choice(["\n", " ", ""]) for t in trees)
    # one edit
    kind = draw(st.sampled_from(["delete", "insert", "duplicate", "none"]))
    posn = draw(st.integers(0, max(0, len(text) - 1)))
    if kind == "delete" and text:
        text = text[:posn] + text[posn + 1:]
    elif kind == "insert":
        text = text[:posn] + draw(st.sampled_from(["(", ")", " ", "x", "(x", ") ("])) + text[posn:]
    elif kind == "duplicate" and text:
        text = text[:posn] + text[posn] + text[posn:]
    return {"text": text, "emptypos": draw(st.booleans())}


def gen_edits(ctx):
    def body(case):
        ntrees, ill = check_string(case)
        ctx.count(key=case, nontrivial=True, classes=["edits:ill-formed" if ill else "edits:well-formed"])
        if ill and ntrees:
            ctx.sample(case, cap=1)
    ctx.hyp(edit_case(), body, max_examples=1500 if ctx.tier == "quick" else 10000)


UNITS.append(Unit("bracket_strings", gen_strings, check_string, shards=(8, 16)))
UNITS.append(Unit("bracket_edits", gen_edits, check_string, shards=(2, 8)))


def gen_random_strings(ctx):
    """longer random strings over a richer alphabet (tabs, newlines, non-ASCII, longer tokens), same oracle as bracket_strings"""
    alphabet = st.sampled_from(["(", ")", "(", ")", " ", "\n", "\t", "a", "b", "NP", "ä", "-", "x1", "  "])
    strategy = st.fixed_dictionaries({"text": st.lists(alphabet, max_size=40).map("".join), "emptypos": st.booleans()})

    def body(case):
        ntrees, ill = check_string(case)
        ctx.count(key=case, nontrivial=(ntrees > 0 or ill), classes=["random-strings:trees>=1" if ntrees else ("random-strings:ill-formed" if ill else "random-strings:no-group")])
        if ntrees >= 2:
            ctx.sample(case, cap=1)
    ctx.hyp(strategy, body, max_examples=2500 if ctx.tier == "quick" else 20000)


UNITS.append(Unit("bracket_random", gen_random_strings, check_string, shards=(2, 8)))


def gen_atheris(ctx):
    """coverage-guided campaign on the bracket reader, semantic oracle (recogniser) inside the target"""
    from vlib import fuzzdrv
    seeds = [] if ctx.shard % 2 == 0 else [b"\x00((S(WP Who)(VB did))(? ?))\n", b"\x01((S(Who)(did)))", b"\x00(VROOT (NP (NN a)) (. .))\t1 2\n"]
    runs = 6000 if ctx.tier == "quick" else 400000

    def to_case(data):
        return {"text": data[1:].decode("utf-8", "ignore").replace("\x00", ""), "emptypos": bool(data[:1] and data[0] & 1)}
    fuzzdrv.campaign(ctx, "brackets", runs, 64 if ctx.tier == "quick" else 200, seeds, to_case, check_string, "atheris-brackets")


UNITS.append(Unit("atheris_brackets", gen_atheris, check_string, shards=(2, 8)))



def gen_large(ctx):
    """a few large files (> 128 kB): guards against anything that depends on buffer or block sizes"""
    long_words = ["ABCDEFGHIJKLMNOP", "Donaudampfschiff", "x", "und", "Zusammenhangsloses"]
    for fmt in ["brackets", "discobrackets", "export", "tigerxml"][ctx.shard::ctx.nshards]:
        trees = []
        for i in range(1700 if fmt != "tigerxml" else 500):
            toks = [{"w": long_words[(i + k) % len(long_words)] + str(i % 7), "p": "NN", "n": k + 1, "e": "HD", "lem": "--", "m": "--",
                     "parts": {"cat": "NN", "gf": "", "gap": "", "co": "", "head": ""}} for k in range(3)]
            np = {"l": "NP", "e": "SB", "lem": "--", "m": "--", "c": toks[:2], "parts": {"cat": "NP", "gf": "", "gap": "", "co": "", "head": ""}}
            root = {"l": "VROOT", "e": "--", "lem": "--", "m": "--", "c": [np, toks[2]], "parts": {"cat": "VROOT", "gf": "", "gap": "", "co": "", "head": ""}}
            trees.append({"sid": i + 1, "root": root})
        case = {"fmt": fmt, "opts": {"quiet": True}, "trees": trees, "layout": 0, "gz": fmt == "export", "enc": "utf-8", "xmlenc": "utf-8", "v4": True,
                "emptypos": False, "root_label": True, "tiger_novroot": False}
        size = len(encode(fmt, case))
        try:
            ctx.run_case(check_corpus, case)
        except Violation as vio:
            vio = ctx.minimize(vio, lambda c: ctx._quiet(check_corpus, c), lambda c: [dict(c, trees=c["trees"][:len(c["trees"]) // 2]), dict(c, trees=c["trees"][len(c["trees"]) // 2:])] if len(c["trees"]) > 1 else [], budget=30)
            ctx.record(vio)
        ctx.count(key=(fmt, size), nontrivial=True, classes=["large:%s:%dkB" % (fmt, size // 1000)])


UNITS.append(Unit("large_files", gen_large, check_corpus, shards=(4, 4)))


# ----------------------------------------------------------------------------------------------- the readers behind the command line

def gen_cli_read(ctx):
    """every reader reached through `treetools transform` (runpy, in this process): source files in all four formats, plain
    or gzip (one or two members), reader options given as --src-opts (brackets_firstid incl. 0, continuous, an inert
    gf_separator), destination export/TIGER-XML (the two formats that show sentence ids and all fields); the decoded
    destination must be the projection of the source model (oracle and projection table of checks/C03.py)"""
    from checks import C03
    quick = ctx.tier == "quick"

    def body(case):
        C03.check(case)
        ctx.count(key=case, nontrivial=not C03.trivial(case), classes=["cli-read:" + c for c in C03.classes_of(case)])
    ctx.hyp(C03.conv_case(7 if quick else 10, 4 if quick else 6, 0.0, dests=["export", "export", "tigerxml"]).map(lambda c: dict(c, third=None)),
            body, max_examples=80 if quick else 800, shrink=False, smaller=C03.smaller)


def check_cli_read(case):
    from checks import C03
    return C03.check(case)


UNITS.append(Unit("cli_read", gen_cli_read, check_cli_read, shards=(4, 8)))
