"""C16 - gap-degree analysis agrees with the set-based definition everywhere it is used."""
import contextlib
import io
import os
import re
from collections import Counter
from hypothesis import strategies as st

from vlib import model as M
from vlib import strategies as S
from vlib import shapes, cli
from vlib import codecs_tree as CT
from vlib.runner import Unit, violation, call, Violation
from vlib.repo import T, treeanalysis, treeoutput, grammar, grammaranalysis

RULE = ("nodes: every hierarchy over n<=5 tokens (with <=1 unary node) exhaustively + Hypothesis trees to 14/18 tokens: "
        "gap_degree_node/terminal_blocks/gap_degree/has_gaps vs runs of token positions, and the three notions of "
        "discontinuity (gap degree>0, bracket writer refuses, extracted grammar not context-free). order: binary trees, "
        "disco_order in both modes is a permutation, identity on continuous trees. tasks: treebanks of 1..6 trees through "
        "GapDegree/PosTags/SentenceCount (API, and `treetools treeanalysis` on an export file written by an independent "
        "encoder); printed totals and per-degree counts vs the model histogram. Non-trivial = gap degree >= 1 somewhere; "
        "distinct by digest / by construction for the enumeration.")
ASSUMPTIONS = ["export files for the CLI runs are written by the independent encoder in vlib/codecs_tree.py",
               "stdout format of the tasks is parsed with regular expressions (numbers only)"]


def check_nodes(case):
    index = {}
    tree = M.build(case, T, index)
    root = case["root"]
    worst = 0
    for node in M.preorder(root):
        rnode = index[id(node)]
        exp = M.gapdeg(node)
        worst = max(worst, exp)
        got = call("C16/gap_degree_node", treeanalysis.gap_degree_node, rnode)
        if got != exp:
            raise violation("C16/gap_degree_node", "node over %r: %r, runs say %d" % (M.nums(node), got, exp))
        blocks = [[t.data["num"] for t in b] for b in call("C16/terminal_blocks", T.terminal_blocks, rnode)]
        if blocks != M.blocks(M.nums(node)):
            raise violation("C16/terminal_blocks", "node over %r: %r" % (M.nums(node), blocks))
        if not M.is_tok(node):
            if bool(call("C16/has_gaps", treeanalysis.has_gaps, rnode)) != (exp > 0):
                raise violation("C16/has_gaps", "node over %r" % (M.nums(node),))
    got = call("C16/gap_degree", treeanalysis.gap_degree, tree)
    if got != worst:
        raise violation("C16/gap_degree-tree", "tree gap degree %r, maximum over nodes is %d" % (got, worst))
    # three notions of discontinuity
    gram, lex = {}, {}
    call("C16/extract", grammar.extract, tree, gram, lex)
    cf = call("C16/is_contextfree", grammaranalysis.is_contextfree, gram)
    if bool(cf) != (worst == 0):
        raise violation("C16/three-way/grammar", "gap degree %d but is_contextfree=%r" % (worst, cf))
    stream = io.StringIO()
    refused = False
    try:
        call("C16/brackets-writer", treeoutput.brackets, M.build(case, T), stream, _allowed=(ValueError,))
    except ValueError:
        refused = True
    if refused != (worst > 0):
        raise violation("C16/three-way/brackets", "gap degree %d but bracket writer %s" % (worst, "refused" if refused else "wrote the tree"))
    return worst


def check_order(case):
    index = {}
    tree = M.build(case, T, index)
    root = case["root"]
    n = len(M.toks(root))
    for mode in ("left", "rightd"):
        seq = call("C16/disco_order", treeanalysis.disco_order, tree, mode)
        numbers = [x.data.get("num") for x in seq]
        if sorted(numbers) != list(range(1, n + 1)):
            raise violation("C16/disco_order/not-a-permutation", "mode %s: %r" % (mode, numbers))
        if M.tree_gapdeg(root) == 0 and numbers != list(range(1, n + 1)):
            raise violation("C16/disco_order/continuous-not-identity", "mode %s: %r" % (mode, numbers))
        where = {num: i for i, num in enumerate(numbers)}
        for node in M.preorder(root):
            if not M.is_tok(node):
                sub = [x.data.get("num") for x in call("C16/disco_order", treeanalysis.disco_order, index[id(node)], mode)]
                if sorted(sub) != M.nums(node):
                    raise violation("C16/disco_order/subtree-not-a-permutation", "mode %s node %r: %r" % (mode, M.nums(node), sub))
                # 'continuous reordering': in the new order every node covers a contiguous stretch
                places = sorted(where[num] for num in M.nums(node))
                if places != list(range(places[0], places[0] + len(places))):
                    raise violation("C16/disco_order/not-continuous", "mode %s: node over %r is not contiguous in %r" % (mode, M.nums(node), numbers))
        if mode == "left":
            def flat(node):
                return [node["n"]] if M.is_tok(node) else [x for ch in M.kids(node) for x in flat(ch)]
            if numbers != flat(root):
                raise violation("C16/disco_order/left-order", "mode left: %r, children left to right give %r" % (numbers, flat(root)))
    return M.tree_gapdeg(root)


def parse_gapdegree(out):
    head = re.search(r"(\d+) trees, (\d+) nodes", out)
    if not head:
        return None
    per_tree, per_node = {}, {}
    section = None
    for line in out.splitlines():
        if line.startswith("Per tree"):
            section = per_tree
        elif line.startswith("Per node"):
            section = per_node
        else:
            match = re.match(r"Gap degree\s+(\d+):\s+(\d+) (trees|nodes)", line)
            if match and section is not None:
                section[int(match.group(1))] = int(match.group(2))
    return int(head.group(1)), int(head.group(2)), per_tree, per_node


def expect_stats(cases):
    per_tree, per_node, tags = Counter(), Counter(), set()
    for case in cases:
        root = case["root"]
        per_tree[M.tree_gapdeg(root)] += 1
        for node in M.constituents(root):
            per_node[M.gapdeg(node)] += 1
        tags.update(t["p"] for t in M.toks(root))
    return dict(per_tree), dict(per_node), tags


def check_tasks_output(kind, outputs, cases, bare_tokens=()):
    """bare_tokens: POS tags of additional sentences that consist of nothing but their tagged token (the root is the
    token: a tree of gap degree 0 without any constituent)"""
    per_tree, per_node, tags = expect_stats(cases)
    if bare_tokens:
        per_tree[0] = per_tree.get(0, 0) + len(bare_tokens)
        tags = set(tags) | set(bare_tokens)
        cases = list(cases) + [None] * len(bare_tokens)
    parsed = parse_gapdegree(outputs["GapDegree"])
    if parsed is None:
        raise violation("C16/%s/GapDegree/unparsable" % kind, outputs["GapDegree"][:300])
    ntrees, nnodes, got_tree, got_node = parsed
    if ntrees != len(cases) or sum(got_tree.values()) != ntrees or got_tree != per_tree:
        raise violation("C16/%s/GapDegree/per-tree" % kind, "reported %d trees %r, model %r" % (ntrees, got_tree, per_tree))
    if nnodes != sum(per_node.values()) or sum(got_node.values()) != nnodes or got_node != per_node:
        raise violation("C16/%s/GapDegree/per-node" % kind, "reported %d nodes %r, model %r" % (nnodes, got_node, per_node))
    match = re.search(r"(\d+) different tags", outputs["PosTags"])
    if not match or int(match.group(1)) != len(tags):
        raise violation("C16/%s/PosTags" % kind, "%r vs %d distinct tags" % (outputs["PosTags"][-80:], len(tags)))
    match = re.search(r"(\d+) sentences", outputs["SentenceCount"])
    if not match or int(match.group(1)) != len(cases):
        raise violation("C16/%s/SentenceCount" % kind, "%r vs %d sentences" % (outputs["SentenceCount"][-80:], len(cases)))


def check_tasks_api(cases):
    outputs = {}
    for task in ("GapDegree", "PosTags", "SentenceCount"):
        inst = getattr(treeanalysis, task)()
        buf = io.StringIO()
        with contextlib.redirect_stdout(buf):
            for case in cases:
                call("C16/api/%s.run" % task, inst.run, M.build(case, T))
            call("C16/api/%s.done" % task, inst.done)
        outputs[task] = buf.getvalue()
    check_tasks_output("api", outputs, cases)


TMP = {"dir": None, "n": 0}


def check_tasks_cli(cases):
    import tempfile
    tmpdir = tempfile.mkdtemp(prefix="c16_")
    path = os.path.join(tmpdir, "corpus.export")
    with open(path, "w", encoding="utf-8") as stream:
        stream.write(CT.encode_export(cases))
    outputs = {}
    try:
        for task in ("GapDegree", "PosTags", "SentenceCount"):
            res = cli.run_sub(["treeanalysis", path, task, "--src-format", "export"])
            if res.code != 0:
                raise violation("C16/cli/%s/exit-status" % task, "exit %d: %s" % (res.code, res.err[-400:]))
            outputs[task] = res.out
    finally:
        import shutil
        shutil.rmtree(tmpdir, ignore_errors=True)
    check_tasks_output("cli", outputs, cases)


def gen_nodes_enum(ctx):
    complete = True
    i = 0
    for desc, case in shapes.all_models(5, "single", rotations=(0, 1)):
        i += 1
        if i % ctx.nshards != ctx.shard:
            continue
        if ctx.time_up():
            ctx.inconclusive = True
            complete = False
            break
        got = []
        try:
            ctx.run_case(lambda c: got.append(check_nodes(c)), case)
        except Violation as vio:
            ctx.record(vio)
            continue
        deg = got[0] if got else 0
        ctx.count(nontrivial=deg >= 1, by_construction=True, classes=["enum:gapdeg=%d" % deg])
        if deg >= 2:
            ctx.sample(desc, cap=1)
    if complete:
        ctx.exhaustive = "all hierarchies over n<=5 tokens with <=1 unary node, 2 child-list rotations"


def gen_nodes_random(ctx):
    quick = ctx.tier == "quick"

    def body(case):
        deg = check_nodes(case)
        ctx.count(key=case["root"], nontrivial=deg >= 1, classes=["random:gapdeg=%d" % min(deg, 4)])
        if deg >= 3:
            ctx.sample(case["root"], cap=1)
    ctx.hyp(S.tree_model(max_tokens=14 if quick else 18, disc=0.7, max_arity=5), body, max_examples=1200 if quick else 6000)


def gen_order(ctx):
    quick = ctx.tier == "quick"

    def body(case):
        deg = check_order(case)
        ctx.count(key=case["root"], nontrivial=deg >= 1, classes=["order:gapdeg=%d" % min(deg, 3)])
        if deg >= 2:
            ctx.sample(case["root"], cap=1)
    ctx.hyp(S.tree_model(max_tokens=10 if quick else 14, disc=0.7, max_arity=2, max_root=2), body,
            max_examples=800 if quick else 5000)


def treebank(max_tokens, max_trees):
    return S.corpus(S.tree_model(max_tokens=max_tokens, disc=0.6, words=st.sampled_from(["a", "b", "Haus", "x1", "#7", "#42", "#2", "#1234", "#9990", "#500th"])), 1, max_trees)


def gen_tasks_api(ctx):
    quick = ctx.tier == "quick"

    def body(cases):
        check_tasks_api(cases)
        deg = max(M.tree_gapdeg(c["root"]) for c in cases)
        ctx.count(key=cases, nontrivial=deg >= 1 and len(cases) >= 2, classes=["api:trees=%d" % len(cases)])
    ctx.hyp(treebank(8, 6), body, max_examples=300 if quick else 2000)


def gen_tasks_cli(ctx):
    quick = ctx.tier == "quick"

    def body(cases):
        check_tasks_cli(cases)
        deg = max(M.tree_gapdeg(c["root"]) for c in cases)
        ctx.count(key=cases, nontrivial=deg >= 1 and len(cases) >= 2, classes=["cli:trees=%d" % len(cases)])
        if len(cases) >= 3 and deg >= 1:
            ctx.sample({"export_file": CT.encode_export(cases)}, cap=1)
    ctx.hyp(treebank(7, 5), body, max_examples=10 if quick else 60, shrink=False,
            smaller=lambda cases: [cases[:i] + cases[i + 1:] for i in range(len(cases)) if len(cases) > 1])


BEFORE = [None, None,
          ["transform", "{src}", "{tmp}", "--src-format", "{fmt}", "--dest-format", "brackets", "--dest-opts", "brackets_skipdisco", "brackets_emptypos"],
          ["transform", "{src}", "{tmp}", "--src-format", "{fmt}", "--dest-format", "export", "--trans", "root_attach", "--params", "quiet"],
          ["treeanalysis", "{src}", "GapDegree", "--src-format", "{fmt}", "--src-opts", "{opt}"],
          ["transform", "{src}", "{tmp}", "--src-format", "{fmt}", "--src-opts", "{opt}", "--dest-format", "terminals"]]


def check_tasks_inproc(case):
    """the analysis commands through runpy in this process, on export / TIGER-XML / discobrackets input, optionally
    after another command with other options on the same file: statistics must be those of the set model"""
    import shutil
    import tempfile
    cases, fmt = case["cases"], case["fmt"]
    tmpdir = tempfile.mkdtemp(prefix="c16i_")
    path = os.path.join(tmpdir, "corpus." + fmt)
    text = {"export": CT.encode_export, "discobrackets": CT.encode_discobrackets, "tigerxml": CT.encode_tigerxml}[fmt](cases)
    bare = list(case.get("bare") or []) if fmt == "discobrackets" else []
    for tag in bare:
        text += "(%s 1)\tyes\n" % tag          # a sentence that is nothing but its tagged token
    with open(path, "w", encoding="utf-8") as stream:
        stream.write(text)
    outputs = {}
    try:
        before = BEFORE[case["before"] % len(BEFORE)]
        if before:
            opt = {"export": "quiet", "discobrackets": "disco_reordered", "tigerxml": "quiet"}[fmt]
            cli.run_inproc([a.format(src=path, tmp=os.path.join(tmpdir, "other"), fmt=fmt, opt=opt) for a in before])
        for task in ("GapDegree", "PosTags", "SentenceCount"):
            res = cli.run_inproc(["treeanalysis", path, task, "--src-format", fmt])
            if res.code != 0:
                raise violation("C16/cli-inproc/%s/exit-status" % task, "exit %d: %s" % (res.code, res.err[-400:]))
            outputs[task] = res.out
    finally:
        shutil.rmtree(tmpdir, ignore_errors=True)
    check_tasks_output("cli-inproc", outputs, cases, bare)


def gen_tasks_inproc(ctx):
    quick = ctx.tier == "quick"
    strategy = st.fixed_dictionaries({"cases": treebank(7, 5), "fmt": st.sampled_from(["export", "discobrackets", "tigerxml"]), "before": st.integers(0, 5),
                                      "bare": st.lists(st.sampled_from(["UH", "NN"]), max_size=2)})

    def body(case):
        check_tasks_inproc(case)
        deg = max(M.tree_gapdeg(c["root"]) for c in case["cases"])
        ctx.count(key=case, nontrivial=deg >= 1 and len(case["cases"]) >= 2,
                  classes=["inproc:" + case["fmt"], "inproc:after-other-command" if BEFORE[case["before"] % len(BEFORE)] else "inproc:alone"])
    ctx.hyp(strategy, body, max_examples=100 if quick else 1000, shrink=False,
            smaller=lambda c: [dict(c, cases=c["cases"][:i] + c["cases"][i + 1:]) for i in range(len(c["cases"])) if len(c["cases"]) > 1])


UNITS = [Unit("nodes_enum", gen_nodes_enum, check_nodes, shards=(3, 8)),
         Unit("nodes_random", gen_nodes_random, check_nodes, shards=(2, 8)),
         Unit("disco_order", gen_order, check_order, shards=(1, 4)),
         Unit("tasks_api", gen_tasks_api, check_tasks_api, shards=(1, 4)),
         Unit("tasks_cli", gen_tasks_cli, check_tasks_cli, shards=(4, 8)),
         Unit("tasks_inproc", gen_tasks_inproc, check_tasks_inproc, shards=(2, 8))]


def check_bank(cases):
    """three notions of discontinuity over a whole treebank (one grammar for all trees; productions repeated with
    different linearizations)"""
    gram, lex = {}, {}
    any_gap = False
    any_refused = False
    for case in cases:
        call("C16/extract", grammar.extract, M.build(case, T), gram, lex)
        any_gap = any_gap or M.tree_gapdeg(case["root"]) > 0
        try:
            call("C16/brackets-writer", treeoutput.brackets, M.build(case, T), io.StringIO(), _allowed=(ValueError,))
        except ValueError:
            any_refused = True
    cf = bool(call("C16/is_contextfree", grammaranalysis.is_contextfree, gram))
    if cf == any_gap:
        raise violation("C16/three-way/grammar", "treebank with%s discontinuous tree: is_contextfree(grammar) = %r" % ("" if any_gap else "out", cf))
    if any_refused != any_gap:
        raise violation("C16/three-way/brackets", "treebank with%s discontinuous tree: bracket writer refused=%r" % ("" if any_gap else "out", any_refused))
    return any_gap


def gen_bank(ctx):
    from checks.C06 import treebank

    def body(cases):
        gap = check_bank(cases)
        ctx.count(key=[c["root"] for c in cases], nontrivial=gap and len(cases) >= 2, classes=["bank:discontinuous" if gap else "bank:continuous"])
    ctx.hyp(treebank(8 if ctx.tier == "quick" else 11, 5), body, max_examples=600 if ctx.tier == "quick" else 4000)


UNITS.append(Unit("three_way_bank", gen_bank, check_bank, shards=(2, 8)))
