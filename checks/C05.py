"""C05 - crossing-branch removal always yields continuous trees, heads kept in place."""
from collections import Counter
from hypothesis import strategies as st

from vlib import model as M
from vlib import strategies as S
from vlib.runner import Unit, violation, call, Violation
from vlib.repo import T, transform

RULE = ("Hypothesis: discontinuity-biased trees (<=9/14 tokens, arity<=4, unary nodes, shuffled child lists); head assignment "
        "by direct flags (any child), by edge labels + negra_mark_heads, or by the negra rule preset; with/without a preceding "
        "root_attach. After boyd_split the tree must equal the model's block tree (one same-labelled node per token block, in "
        "order, block numbers 1..k, exactly one head block, marking/numbering output exactly on split nodes); after raising it "
        "must equal the closed-form reference (each constituent keeps the block of its yield containing its head child's kept "
        "block; everything else hangs under the lowest ancestor whose kept block contains it), every node contiguous, token "
        "sequence and label multiset unchanged, continuous input unchanged. Non-trivial = gap degree >= 1; distinct by digest.")
ASSUMPTIONS = ["head flags are read back from the tree after the head-marking step (correctness of marking is C15's business)",
               "reference: closed form of the documented procedure, see DESIGN.md C05"]


def with_heads(tree_strategy):
    @st.composite
    def build(draw):
        case = draw(tree_strategy)
        mode = draw(st.sampled_from(["flags", "flags", "negra", "negra+root_attach", "preset", "flags+root_attach"]))
        if mode.startswith("flags"):
            for node in M.constituents(case["root"]):
                pick = draw(st.integers(0, len(node["c"]) - 1))
                for i, child in enumerate(node["c"]):
                    child["h"] = (i == pick)
            case["root"]["h"] = False
        return {"mode": mode, "tree": case}
    return build()


def head_child(node):
    heads = [c for c in node["c"] if c.get("h") is True]
    return heads[0] if len(heads) == 1 else None


def kept(node, memo):
    """K(node): the block of the node's yield that contains the kept block of its head child."""
    if id(node) in memo:
        return memo[id(node)]
    if M.is_tok(node):
        out = [node["n"]]
    else:
        inner = kept(head_child(node), memo)
        out = [b for b in M.blocks(M.nums(node)) if inner[0] in b][0]
    memo[id(node)] = out
    return out


def reference_raised(root):
    """Closed form of split+raise: every node keeps K(node) and hangs under the lowest ancestor A with K(node) in K(A)."""
    memo = {}
    parent = {}
    for node in M.preorder(root):
        for child in node.get("c", ()):
            parent[id(child)] = node
    fresh = {}
    for node in M.preorder(root):
        new = {k: v for k, v in node.items() if k != "c"}
        if not M.is_tok(node):
            new["c"] = []
        fresh[id(node)] = new
    for node in M.preorder(root):
        if node is root:
            continue
        mine = set(root_kept(node, root, memo))
        anc = parent[id(node)]
        while not mine <= set(root_kept(anc, root, memo)):
            anc = parent[id(anc)]
        fresh[id(anc)]["c"].append(fresh[id(node)])
    return fresh[id(root)]


def root_kept(node, root, memo):
    if node is root:
        return M.nums(root)
    return kept(node, memo)


def reference_split(root):
    """Block tree after boyd_split alone."""
    memo = {}

    def rec(node, is_root):
        if M.is_tok(node):
            return [dict(node)]
        parts = []
        for child in M.kids(node):
            parts.extend(rec(child, False))
        blocks = M.blocks(M.nums(node))
        out = []
        hk = kept(head_child(node), memo)[0] if not is_root or head_child(node) is not None else None
        for i, block in enumerate(blocks):
            new = {k: v for k, v in node.items() if k != "c"}
            new["c"] = [p for p in parts if set(M.nums(p)) <= set(block)]
            new["split"] = len(blocks) > 1
            if len(blocks) > 1:
                new["bn"] = i + 1
                new["hb"] = hk in block
            out.append(new)
        return out
    res = rec(root, True)
    assert len(res) == 1
    return res[0]


def flagged(node, keys):
    """canonical form including selected flags"""
    if M.is_tok(node):
        return ("T", node["n"], node["w"], node["p"], node.get("e"), node.get("h"))
    extra = tuple(node.get(k) for k in keys)
    return ("N", node["l"], node.get("e"), node.get("h")) + extra + (tuple(flagged(c, keys) for c in M.kids(node)),)


def snap(prefix, tree, flags=True):
    try:
        return M.snapshot(tree, flags=flags)[0]
    except M.Malformed as bad:
        raise violation(prefix + "/malformed:" + bad.reason, str(bad))


def check(case):
    mode = case["mode"]
    tree = M.build(case["tree"], T)
    if "root_attach" in mode:
        tree = call("C05/root_attach", transform.root_attach, tree)
    if mode.startswith("negra"):
        tree = call("C05/negra_mark_heads", transform.negra_mark_heads, tree)
    elif mode == "preset":
        tree = call("C05/mark_heads_by_rules", transform.mark_heads_by_rules, tree, mark_heads_preset="negra")
    before = snap("C05/input", tree)
    for node in M.constituents(before):
        if head_child(node) is None:
            if not mode.startswith("flags"):
                # "after head marking": a marker that leaves a constituent without exactly one head child makes the
                # documented pipeline marker -> boyd_split -> raising lose or keep the wrong material
                raise violation("C05/%s/no-unique-head-after-marking" % mode, "constituent %s%r has no unique head child after the head marker"
                                % (node["l"], M.nums(node)))
            return None  # flags set directly by the generator, then moved by root_attach: not a head assignment any more
    degree = M.tree_gapdeg(before)
    sentence = M.sentence(before)
    labels = M.labels(before)
    # ---- boyd_split alone
    tree = call("C05/boyd_split", transform.boyd_split, tree)
    mid = snap("C05/boyd_split", tree)
    exp_mid = reference_split(before)
    for node in M.preorder(mid):
        if M.gapdeg(node) > 0:
            raise violation("C05/boyd_split/node-not-continuous", "%s over %r" % (node.get("l"), M.nums(node)))
    if M.sentence(mid) != sentence:
        raise violation("C05/boyd_split/sentence-changed", "%r" % (M.sentence(mid),))
    # per original constituent: k same-labelled nodes, one per block, numbered in order, one head block
    got_blocks = Counter((n["l"], tuple(M.nums(n))) for n in M.constituents(mid))
    exp_blocks = Counter((n["l"], tuple(M.nums(n))) for n in M.constituents(exp_mid))
    if got_blocks != exp_blocks:
        raise violation("C05/boyd_split/blocks", "block nodes %r, expected %r" % (sorted((got_blocks - exp_blocks).items()), sorted((exp_blocks - got_blocks).items())))
    norm = lambda node: flagged(node, ("split", "bn", "hb") if node.get("split") else ("split",))

    def flagged_split(node):
        if M.is_tok(node):
            return ("T", node["n"], node["w"], node["p"], node.get("e"), node.get("h"))
        keys = ("split", "bn", "hb") if node.get("split") else ()
        return ("N", node["l"], node.get("e"), node.get("h"), bool(node.get("split"))) + tuple(node.get(k) for k in keys) + (tuple(flagged_split(c) for c in M.kids(node)),)
    if flagged_split(mid) != flagged_split(exp_mid):
        raise violation("C05/boyd_split/differs-from-block-tree", "split/block_number/head_block flags or attachment differ from the model's block tree")
    # output options
    stack = [tree]
    while stack:
        node = stack.pop()
        stack.extend(node.children)
        if not node.children:
            continue
        split = bool(node.data.get("split"))
        lab = node.data["label"]
        got = call("C05/get_label", T.get_label, node, boyd_split_marking=True)
        if got != lab + ("*" if split else ""):
            raise violation("C05/boyd_split/marking-output", "%r for split=%r" % (got, split))
        got = call("C05/get_label", T.get_label, node, boyd_split_marking=True, boyd_split_numbering=True)
        if got != lab + ("*%d" % node.data["block_number"] if split else ""):
            raise violation("C05/boyd_split/numbering-output", "%r for split=%r" % (got, split))
        got = call("C05/get_label", T.get_label, node, boyd_split_numbering=True)
        if got not in ((lab + "%d" % node.data["block_number"], lab + "*%d" % node.data["block_number"]) if split else (lab,)):
            raise violation("C05/boyd_split/numbering-output", "%r for split=%r" % (got, split))
    # ---- raising
    tree = call("C05/raising", transform.raising, tree)
    after = snap("C05/raising", tree)
    for node in M.preorder(after):
        if M.gapdeg(node) > 0:
            raise violation("C05/raising/node-not-continuous", "%s over %r" % (node.get("l"), M.nums(node)))
    if M.sentence(after) != sentence:
        raise violation("C05/raising/sentence-changed", "%r" % (M.sentence(after),))
    if M.labels(after) != labels:
        raise violation("C05/raising/label-multiset-changed", "%r vs %r" % (sorted(M.labels(after).items()), sorted(labels.items())))
    fields = dict(tok_fields=("w", "p", "lem", "m", "e", "h"), con_fields=("l", "e", "h"))
    if degree == 0 and M.canon(after, **fields) != M.canon(before, **fields):
        raise violation("C05/raising/continuous-tree-changed", "a continuous tree did not come back unchanged")
    exp_after = reference_raised(before)
    if M.canon(after, **fields) != M.canon(exp_after, **fields):
        got_p = M.parent_map(after)
        exp_p = M.parent_map(exp_after)
        diff = [(k, exp_p.get(k), got_p.get(k)) for k in sorted(set(exp_p) | set(got_p), key=repr) if exp_p.get(k) != got_p.get(k)]
        raise violation("C05/raising/differs-from-reference", "node, expected parent, got: %r" % (diff[:3],))
    return before, degree


def gen(ctx):
    quick = ctx.tier == "quick"
    edges = st.sampled_from(["HD", "NK", "SB", "--", "OA", "HD"])
    # categories whose head rules have every shape of the tables: several priority lists, both directions, empty lists
    labels = st.sampled_from(["S", "NP", "VP", "PP", "AP", "X", "CO", "DL", "VZ", "CH", "ISU", "MPN", "VROOT"])
    pos = st.sampled_from(["NN", "VVFIN", "ART", "ADJA", "APPR", "$,"])
    base = S.tree_model(min_tokens=3, max_tokens=9 if quick else 14, disc=0.9, disc_step=0.8, edges=edges, labels=labels, pos=pos, max_arity=4)

    def body(case):
        res = check(case)
        if res is None:
            ctx.rejected += 1
            return
        before, degree = res
        classes = ["mode=" + case["mode"], "gapdeg=%d" % min(degree, 3)]
        # interesting sub-classes
        for node in M.constituents(before):
            hc = head_child(node)
            if hc is not None and M.gapdeg(hc) > 0:
                classes.append("discontinuous-head-child")
                break
        ctx.count(key=(case["mode"], before), nontrivial=degree >= 1, classes=set(classes))
        if degree >= 2:
            ctx.sample({"mode": case["mode"], "tree": M.strip_ids(before)}, cap=2)
    ctx.hyp(with_heads(base), body, max_examples=1200 if quick else 6000)


UNITS = [Unit("split_and_raise", gen, check, shards=(4, 16))]


from vlib import clidiff
UNITS.append(clidiff.unit("C05"))
