"""C18 - processing is sentence-local, deterministic and history-independent."""
import base64
import json
import os
import shutil
import subprocess
import tempfile
from collections import Counter
from hypothesis import strategies as st

from vlib import model as M
from vlib import strategies as S
from vlib import codecs_tree as CT
from vlib import codecs_grammar as CG
from vlib.runner import Unit, violation, Violation, VERIF
from vlib.repo import REPO
from checks.C16 import parse_gapdegree

RULE = ("history: Hypothesis job lists (2..6 jobs; a job = corpus of 1..3 sentences + source format + reader options + transformation list with its own terminal "
        "file + one of: conversion to a destination format, grammar extraction (treebank / leftright / optimal, Markov) in pmcfg/rcg/lopar, analysis task, "
        "transition extraction), every job being a real `treetools` command line. Each job is run alone in a fresh interpreter, and all jobs are run one "
        "after the other in ONE interpreter in the drawn order and in a drawn permutation; the outputs (files and stdout) of a job must be identical in all "
        "three runs (files that represent sets compared as line multisets). concat: for corpora A, B: output(A+B) = output(A) ++ output(B) for conversions and "
        "transitions, = sum for treebank and Markov grammars, lexicons and statistics. hashseed: the same command under PYTHONHASHSEED 0, 1, 123 gives the same "
        "output. interleave (API, in-process): 2..3 reader->transformation->writer/extraction pipelines run sequentially and interleaved tree by tree along a drawn "
        "schedule must give the same per-pipeline outputs. concat_api: extraction, Markov binarization, writers and statistics over A+B = sum / concatenation. "
        "Non-trivial (history) = >= 3 jobs touching >= 2 formats, or a job with a terminal file preceded by a job with another one; every interleave / concat case "
        "counts as non-trivial; distinct by digest.")
ASSUMPTIONS = ["jobs are executed through vlib/jobrunner.py, which runs the unmodified treetools script with runpy in a process that has imported nothing else",
               "grammar, lexicon and LoPar auxiliary files are compared as multisets of lines; everything else byte for byte",
               "only sentence-local transformations are drawn; sentence ids are distinct across A and B"]

PY = os.environ.get("VERIF_PYTHON", "/venv/bin/python")


def run_jobs(jobs, hashseed="0"):
    """jobs: list of {"argv", "collect"} -> list of results (fresh interpreter)"""
    tmp = tempfile.mkdtemp(prefix="c18run_")
    try:
        spec = os.path.join(tmp, "spec.json")
        result = os.path.join(tmp, "result.json")
        with open(spec, "w") as stream:
            json.dump({"repo": REPO, "jobs": jobs}, stream)
        env = dict(os.environ, PYTHONHASHSEED=str(hashseed), PYTHONDONTWRITEBYTECODE="1", PYTHONPATH=VERIF)
        proc = subprocess.run([PY, "-B", "-W", "ignore", "-m", "vlib.jobrunner", spec, result], env=env, capture_output=True, timeout=300, cwd=VERIF)
        if proc.returncode != 0 or not os.path.exists(result):
            raise RuntimeError("job runner failed: %s" % proc.stderr.decode("utf-8", "replace")[-500:])
        with open(result) as stream:
            return json.load(stream)["results"]
    finally:
        shutil.rmtree(tmp, ignore_errors=True)


# ----------------------------------------------------------------------------------------------- jobs

SETLIKE = (".pmcfg", ".rcg", ".lex", ".gram", ".start", ".oc", ".OC")


def write_input(path, fmt, trees):
    if fmt == "export":
        text = CT.encode_export(trees, v4=True)
    elif fmt == "brackets":
        text = "".join(CT.encode_brackets_tree(t["root"], lambda kind: " " if kind == "req" else "") + "\n" for t in trees)
    elif fmt == "discobrackets":
        text = CT.encode_discobrackets(trees)
    else:
        text = CT.encode_tigerxml(trees)
    with open(path, "w", encoding="utf-8") as stream:
        stream.write(text)


def materialize(job, workdir, tag):
    """write the job's input files (once) and return (argv, collect) for an output directory"""
    jobdir = os.path.join(workdir, "job_%s" % tag)
    os.makedirs(jobdir, exist_ok=True)
    src = os.path.join(jobdir, "in." + job["src_fmt"])
    if not os.path.exists(src):
        write_input(src, job["src_fmt"], job["trees"])
    params = list(job.get("params", []))
    if job.get("termfile") is not None:
        tf = os.path.join(jobdir, "terminals_%s.txt" % tag)
        if not os.path.exists(tf):
            with open(tf, "w", encoding="utf-8") as stream:
                for line in job["termfile"]:
                    stream.write("\t".join(str(x) for x in line) + "\n")
        params.append("terminalfile:" + tf)
    return jobdir, src, params


def command(job, workdir, tag, run):
    jobdir, src, params = materialize(job, workdir, tag)
    outdir = os.path.join(jobdir, "out_" + run)
    os.makedirs(outdir, exist_ok=True)
    kind = job["kind"]
    common = ["--src-format", job["src_fmt"], "--src-opts", "quiet"] + list(job.get("src_opts", []))
    if kind == "transform":
        dest = os.path.join(outdir, "dest")
        argv = ["transform", src, dest] + common + ["--dest-format", job["dest_fmt"]]
        if job.get("dest_opts"):
            argv += ["--dest-opts"] + list(job["dest_opts"])
        if job.get("trans"):
            argv += ["--trans"] + list(job["trans"])
        if params:
            argv += ["--params"] + params
        return {"argv": argv, "collect": [dest]}
    if kind == "grammar":
        dest = os.path.join(outdir, "g")
        argv = ["grammar", src, dest, job["gramtype"]] + common + ["--dest-format", job["dest_fmt"]]
        if job.get("markov"):
            argv += ["--markov"] + list(job["markov"])
        return {"argv": argv, "collect": [dest + ext for ext in SETLIKE]}
    if kind == "analysis":
        return {"argv": ["treeanalysis", src, job["task"]] + common, "collect": []}
    if kind == "transitions":
        dest = os.path.join(outdir, "trans")
        argv = ["transitions", src, dest, job["system"]] + common
        if job["system"] != "inorder":
            argv += ["--transform", "negra_mark_heads", "binarize"]
        return {"argv": argv, "collect": [dest]}
    raise AssertionError(kind)


def normal(result):
    """comparable form of a job result"""
    files = {}
    for name, data in result["files"].items():
        raw = base64.b64decode(data)
        if name.endswith(SETLIKE) or any(name == "g" + ext for ext in SETLIKE):
            files[name] = tuple(sorted(raw.split(b"\n")))
        else:
            files[name] = raw
    stdout = result["stdout"]
    return {"code": result["code"], "files": files, "stdout": stdout}


def describe(job):
    return {k: v for k, v in job.items() if k != "trees"}


def check_history(case):
    jobs = case["jobs"]
    workdir = tempfile.mkdtemp(prefix="c18_")
    try:
        fresh = []
        for i, job in enumerate(jobs):
            res = run_jobs([command(job, workdir, str(i), "fresh")])[0]
            fresh.append(normal(res))
        orders = [("sequence", list(range(len(jobs))))]
        perm = [p % len(jobs) for p in case.get("perm", [])]
        perm = [p for i, p in enumerate(perm) if p not in perm[:i]]
        perm += [i for i in range(len(jobs)) if i not in perm]
        if perm != orders[0][1]:
            orders.append(("permuted", perm))
        for name, order in orders:
            results = run_jobs([command(jobs[i], workdir, str(i), name) for i in order])
            for pos, (i, res) in enumerate(zip(order, results)):
                got = normal(res)
                if got != fresh[i]:
                    what = "exit status" if got["code"] != fresh[i]["code"] else ("stdout" if got["stdout"] != fresh[i]["stdout"] else
                                                                                 "file " + ",".join(sorted(k for k in set(got["files"]) | set(fresh[i]["files"]) if got["files"].get(k) != fresh[i]["files"].get(k))))
                    raise violation("C18/history/%s-differs" % jobs[i]["kind"],
                                    "job %r as number %d of the %s run gives a different %s than in a fresh process (preceding jobs: %r)"
                                    % (describe(jobs[i]), pos + 1, name, what, [describe(jobs[j]) for j in order[:pos]]))
        for i, res in enumerate(fresh):
            if res["code"] != 0 and not jobs[i].get("may_fail"):
                raise violation("C18/history/job-failed", "job %r exits with status %d" % (describe(jobs[i]), res["code"]))
    finally:
        shutil.rmtree(workdir, ignore_errors=True)
    return True


def check_hashseed(case):
    job = case["job"]
    workdir = tempfile.mkdtemp(prefix="c18_")
    try:
        base = None
        for seed in ("0", "1", "123"):
            res = normal(run_jobs([command(job, workdir, "h", "seed" + seed)], hashseed=seed)[0])
            if base is None:
                base = res
            elif res != base:
                raise violation("C18/hashseed/%s-differs" % job["kind"], "job %r gives different output under PYTHONHASHSEED=%s and 0" % (describe(job), seed))
    finally:
        shutil.rmtree(workdir, ignore_errors=True)
    return True


def check_concat(case):
    """job template applied to A, B and A+B"""
    job = case["job"]
    a, b = case["a"], case["b"]
    workdir = tempfile.mkdtemp(prefix="c18_")
    try:
        outs = []
        for tag, trees in (("a", a), ("b", b), ("ab", a + b)):
            j = dict(job, trees=trees)
            res = run_jobs([command(j, workdir, tag, "run")])[0]
            if res["code"] != 0:
                raise violation("C18/concat/job-failed", "job %r on corpus %s exits with %d: %s" % (describe(job), tag, res["code"], res["stderr_tail"]))
            outs.append(res)
        kind = job["kind"]

        def dec(res, name):
            if name not in res["files"]:
                raise violation("C18/concat/output-missing", "job %r exits with 0 but wrote no file %r (files: %r)" % (describe(job), name, sorted(res["files"])))
            return base64.b64decode(res["files"][name])
        if kind == "transform":
            fa, fb, fab = (dec(r, "dest") for r in outs)
            if job["dest_fmt"] == "tigerxml":
                la, lb, lab = ([(c["sid"], M.canon(c["root"])) for c in CT.decode_tigerxml(x)] for x in (fa, fb, fab))
                if la + lb != lab:
                    raise violation("C18/concat/transform", "TIGER-XML of A+B is not the concatenation of A and B (%r)" % (describe(job),))
            elif fa + fb != fab:
                raise violation("C18/concat/transform", "output for A+B differs from output(A) + output(B) for %r" % (describe(job),))
            stdouts = [o["stdout"] for o in outs]
            if job["src_fmt"] in ("brackets", "discobrackets"):
                # these formats carry no sentence ids: they are positional and restart in B, and punctuation_delete prints them
                stdouts = ["\n".join(line.partition("\t")[2] if "\t" in line else line for line in text.split("\n")) for text in stdouts]
            if stdouts[0] + stdouts[1] != stdouts[2]:
                raise violation("C18/concat/transform-stdout", "stdout for A+B differs from stdout(A) + stdout(B) for %r" % (describe(job),))
        elif kind == "transitions":
            if dec(outs[0], "trans") + dec(outs[1], "trans") != dec(outs[2], "trans"):
                raise violation("C18/concat/transitions", "%r" % (describe(job),))
        elif kind == "analysis":
            if job["task"] == "GapDegree":
                pa, pb, pab = (parse_gapdegree(r["stdout"]) for r in outs)
                if pa is None or pb is None or pab is None:
                    raise violation("C18/concat/statistics-unparsable", "GapDegree printed no summary for one of A, B, A+B (%r)" % (describe(job),))
                summed = (pa[0] + pb[0], pa[1] + pb[1], dict(Counter(pa[2]) + Counter(pb[2])), dict(Counter(pa[3]) + Counter(pb[3])))
                if tuple(pab) != summed:
                    raise violation("C18/concat/statistics", "GapDegree(A+B) = %r, sum of parts %r" % (pab, summed))
            elif job["task"] == "SentenceCount":
                import re
                nums = [int(re.search(r"(\d+) sentences", r["stdout"]).group(1)) for r in outs]
                if nums[0] + nums[1] != nums[2]:
                    raise violation("C18/concat/statistics", "SentenceCount %r" % (nums,))
        elif kind == "grammar":
            workfiles = []
            for tag, res in zip(("a", "b", "ab"), outs):
                d = os.path.join(workdir, "dec_" + tag)
                os.makedirs(d)
                for name, data in res["files"].items():
                    with open(os.path.join(d, name), "wb") as stream:
                        stream.write(base64.b64decode(data))
                workfiles.append(d)
            fmt = job["dest_fmt"]
            need = {"pmcfg": ["g.pmcfg", "g.lex"], "rcg": ["g.rcg", "g.lex"], "lopar": ["g.gram", "g.lex"]}[fmt]
            for res in outs:
                for name in need:
                    if name not in res["files"]:
                        raise violation("C18/concat/output-missing", "job %r exits with 0 but wrote no file %r (files: %r)" % (describe(job), name, sorted(res["files"])))
            decode = {"pmcfg": lambda d: CG.decode_pmcfg(os.path.join(d, "g.pmcfg"), "utf-8"), "rcg": lambda d: CG.decode_rcg(os.path.join(d, "g.rcg"), "utf-8"),
                      "lopar": lambda d: CG.decode_lopar_gram(os.path.join(d, "g.gram"), "utf-8")}[fmt]
            ga, gb, gab = (decode(d) for d in workfiles)
            if ga + gb != gab:
                diff = [(k, ga.get(k, 0) + gb.get(k, 0), gab.get(k, 0)) for k in set(ga) | set(gb) | set(gab) if ga.get(k, 0) + gb.get(k, 0) != gab.get(k, 0)]
                raise violation("C18/concat/grammar", "%r: rule, count(A)+count(B), count(A+B): %r" % (describe(job), diff[:2]))
            la, lb, lab = (CG.decode_lex(os.path.join(d, "g.lex"), "utf-8") for d in workfiles)
            merged = {}
            for lex in (la, lb):
                for word, tags in lex.items():
                    for tag, cnt in tags.items():
                        merged.setdefault(word, {})[tag] = merged.get(word, {}).get(tag, 0) + cnt
            if merged != lab:
                raise violation("C18/concat/lexicon", "%r" % (describe(job),))
    finally:
        shutil.rmtree(workdir, ignore_errors=True)
    return True


# ----------------------------------------------------------------------------------------------- generators

TRANS = [[], [], ["root_attach"], ["negra_mark_heads", "boyd_split", "raising"], ["punctuation_verylow"], ["add_topnode"],
         ["negra_mark_heads", "binarize"], ["punctuation_delete"], ["substitute_terminals"], ["insert_terminals"], ["root_attach", "punctuation_root"],
         ["filter_by_length"], ["filter_by_length"]]


@st.composite
def job_strategy(draw, kinds=("transform", "transform", "grammar", "analysis", "transitions"), trees=None, wide=False, indexed=False, gflabels=False):
    kind = draw(st.sampled_from(kinds))
    src_fmt = draw(st.sampled_from(["export", "export", "tigerxml", "discobrackets", "brackets"]))
    if kind == "transitions" and draw(st.booleans()):
        src_fmt = "brackets"
    cont = src_fmt == "brackets" or (kind == "transitions")
    labels = st.sampled_from(["S", "NP-1", "VP=2", "NP-SBJ-1", "NP"]) if indexed else st.sampled_from(["S", "NP", "VP"])
    if gflabels:
        labels = st.sampled_from(["S", "NP-SB", "VP#HD", "NP#OA-MO", "PP"])
        src_fmt = draw(st.sampled_from(["export", "tigerxml", "discobrackets"]))
    tree = S.tree_model(max_tokens=7 if wide else 6, min_tokens=4 if wide else 1, disc=0.0 if cont else 0.5,
                        words=st.sampled_from(["a", "b", ",", ".", "Haus", "ä", "-LRB-"]), max_arity=5 if wide else 4,
                        labels=labels, pos=st.sampled_from(["NN", "VB", "$,"]), edges=st.sampled_from(["HD", "NK", "--"]))
    if trees is None:
        trees = draw(S.corpus(tree, 1, 3))
    job = {"kind": kind, "src_fmt": src_fmt, "trees": trees}
    if kind == "transform":
        dests = ["export", "discobrackets", "tigerxml", "terminals"] + (["brackets"] if cont else [])
        job["dest_fmt"] = draw(st.sampled_from(dests))
        job["trans"] = list(draw(st.sampled_from(TRANS)))
        if job["dest_fmt"] == "brackets" and any(t.startswith("punctuation_") or t in ("root_attach", "insert_terminals") for t in job["trans"]):
            # re-attachment can make a continuous tree discontinuous, which the bracket writer rightly refuses
            job["dest_fmt"] = "discobrackets"
        if "substitute_terminals" in job["trans"] or "insert_terminals" in job["trans"]:
            sids = [t["sid"] for t in trees] if src_fmt in ("export", "tigerxml") else list(range(1, len(trees) + 1))
            lines = []
            for k in range(draw(st.integers(1, 3))):
                lines.append([draw(st.sampled_from(sids)), k + 1, draw(st.sampled_from(["NEU", "x", "Y"])), draw(st.sampled_from(["PX", "NN"]))])
            job["termfile"] = lines
            job["params"] = ["quiet"]
        if job["trans"] == ["filter_by_length"]:
            job["params"] = ["filteroperator:%s" % draw(st.sampled_from(["lt", "gt", "eq"])), "filtervalue:%d" % draw(st.integers(1, 5))]
        if draw(st.integers(0, 3)) == 0 and job["dest_fmt"] in ("export", "discobrackets", "brackets"):
            job["dest_opts"] = ["gf"]
    elif kind == "grammar":
        job["gramtype"] = draw(st.sampled_from(["treebank", "leftright", "optimal"]))
        if job["gramtype"] != "treebank" and draw(st.booleans()):
            job["markov"] = ["v:%d" % draw(st.integers(0, 2)), "h:%d" % draw(st.integers(0, 2))] + (["nofanout"] if draw(st.booleans()) else [])
        job["dest_fmt"] = draw(st.sampled_from(["pmcfg", "rcg"] + (["lopar"] if cont else [])))
    elif kind == "analysis":
        job["task"] = draw(st.sampled_from(["GapDegree", "PosTags", "SentenceCount"]))
    else:
        job["system"] = draw(st.sampled_from(["topdown", "inorder"])) if cont else "gap"
        if src_fmt not in ("brackets",) and job["system"] != "gap" and any(M.tree_gapdeg(t["root"]) > 0 for t in trees):
            job["system"] = "gap"
    return job


@st.composite
def history_case(draw, max_jobs):
    jobs = draw(st.lists(job_strategy(), min_size=2, max_size=max_jobs))
    # bias: two jobs with different terminal files in one history
    if draw(st.integers(0, 2)) == 0:
        extra = draw(job_strategy(kinds=("transform",)))
        extra["trans"] = [draw(st.sampled_from(["substitute_terminals", "insert_terminals"]))]
        sids = [t["sid"] for t in extra["trees"]] if extra["src_fmt"] in ("export", "tigerxml") else list(range(1, len(extra["trees"]) + 1))
        extra["termfile"] = [[sids[0], 1, "ZWEI", "PY"]]
        extra["params"] = ["quiet"]
        other = dict(extra, termfile=[[sids[0], 1, "EINS", "PZ"]])
        jobs.insert(draw(st.integers(0, len(jobs))), other)
        jobs.append(extra)
    bias = draw(st.integers(0, 5))
    if bias == 0:
        # two deterministic binarizations of grammars with rules of rank >= 3 in one history
        for _ in range(2):
            g = draw(job_strategy(kinds=("grammar",), wide=True))
            g["gramtype"] = draw(st.sampled_from(["leftright", "optimal"]))
            g.pop("markov", None)
            jobs.append(g)
    elif bias == 2:
        # the same labels read with gf_split under two different separators
        base = draw(job_strategy(kinds=("transform",), gflabels=True))
        base["trans"] = []
        base.pop("termfile", None)
        base.pop("params", None)
        base["dest_fmt"] = "export"
        base["dest_opts"] = ["gf"]
        jobs.insert(0, dict(base, src_opts=["gf_split"]))
        jobs.append(dict(base, src_opts=["gf_split", "gf_separator:#"]))
    elif bias == 1:
        # the same indexed labels processed with and without keepcoindex
        base = draw(job_strategy(kinds=("transform",), indexed=True))
        base["trans"] = ["ptb_delete_traces"]
        base.pop("termfile", None)
        first = dict(base, params=[])
        second = dict(base, params=["keepcoindex"])
        jobs.insert(0, first)
        jobs.append(second)
    return {"jobs": jobs[:max_jobs + 2], "perm": draw(st.lists(st.integers(0, 10), max_size=8))}


def nontrivial_history(case):
    jobs = case["jobs"]
    fmts = set(j["src_fmt"] for j in jobs) | set(j.get("dest_fmt", "") for j in jobs)
    with_tf = [i for i, j in enumerate(jobs) if j.get("termfile")]
    return (len(jobs) >= 3 and len(fmts) >= 2) or len(with_tf) >= 2


def gen_history(ctx):
    quick = ctx.tier == "quick"

    def body(case):
        check_history(case)
        classes = ["history:jobs=%d" % len(case["jobs"])] + ["history:kind=" + k for k in set(j["kind"] for j in case["jobs"])]
        if len([j for j in case["jobs"] if j.get("termfile")]) >= 2:
            classes.append("history:two-terminal-files")
        ctx.count(key=case, nontrivial=nontrivial_history(case), classes=classes)
        if nontrivial_history(case):
            ctx.sample([describe(j) for j in case["jobs"]], cap=2)
    if ctx.shard == 0:
        # a fixed history: the same tree binarization three times in a row (wide nodes, co-indexed labels, plain and bare
        # binarization labels), then transitions over a binarized tree - counters or caches that live as long as the
        # process would show from the second job on
        def tok(i):
            return {"w": "w%d" % i, "p": "NN", "n": i, "e": "HD" if i == 2 else "NK", "lem": "--", "m": "--"}
        wide = {"l": "VROOT", "e": "--", "lem": "--", "m": "--", "c": [{"l": "S", "e": "--", "lem": "--", "m": "--", "c": [
            {"l": "NP-1", "e": "SB", "lem": "--", "m": "--", "c": [tok(1), tok(2), tok(3), tok(4)]}, tok(5), tok(6), tok(7)]}]}
        trees = [{"sid": 1, "root": wide}, {"sid": 2, "root": wide}]
        base = {"kind": "transform", "src_fmt": "export", "dest_fmt": "export", "trees": trees, "trans": ["negra_mark_heads", "binarize"]}
        jobs = [dict(base), dict(base, params=["bare_bin_labels"]), dict(base, dest_fmt="discobrackets"), dict(base)]
        try:
            ctx.run_case(body, {"jobs": jobs, "perm": [3, 1]})
        except Violation as vio:
            ctx.record(vio)
    ctx.hyp(history_case(4 if quick else 6), body, max_examples=10 if quick else 60, shrink=False,
            smaller=lambda c: [dict(c, jobs=c["jobs"][:i] + c["jobs"][i + 1:]) for i in range(len(c["jobs"])) if len(c["jobs"]) > 2])


def gen_hashseed(ctx):
    quick = ctx.tier == "quick"

    def body(case):
        check_hashseed(case)
        ctx.count(key=case, nontrivial=True, classes=["hashseed:" + case["job"]["kind"]])
    if ctx.shard == 0:
        # words in which a bracket stands between dashes: the order in which the bracket names are substituted matters
        # for them ('-(-' contains the name '-LRB-' after one substitution), so the order must be fixed
        def tok(word, num):
            return {"w": word, "p": "NN", "n": num, "e": "--", "lem": "--", "m": "--"}
        words = ["3-(-2)", "a-[-b", "x-}-y", "(-)-(", "-)-"]
        root = {"l": "VROOT", "e": "--", "lem": "--", "m": "--", "c": [{"l": "S", "e": "--", "lem": "--", "m": "--", "c": [tok(w, i + 1) for i, w in enumerate(words)]}]}
        for dest in ("discobrackets", "brackets"):
            case = {"job": {"kind": "transform", "src_fmt": "export", "dest_fmt": dest, "trans": [], "trees": [{"sid": 1, "root": root}]}}
            try:
                ctx.run_case(body, case)
            except Violation as vio:
                ctx.record(vio)
    ctx.hyp(st.fixed_dictionaries({"job": job_strategy(kinds=("grammar", "grammar", "grammar", "transform", "analysis"), wide=True)}), body, max_examples=8 if quick else 40, shrink=False)


@st.composite
def concat_case(draw):
    job = draw(job_strategy(kinds=("transform", "transform", "grammar", "analysis", "transitions")))
    src_fmt = job["src_fmt"]
    cont = src_fmt == "brackets" or job["kind"] == "transitions"
    if job["kind"] == "grammar" and job["gramtype"] != "treebank" and not job.get("markov"):
        job["markov"] = ["v:1", "h:1"]       # deterministic binarization numbers its symbols: additive only up to renaming
    if job["kind"] == "analysis" and job["task"] == "PosTags":
        job["task"] = "GapDegree"
    if job["kind"] == "transform" and job["src_fmt"] in ("brackets", "discobrackets") and job["dest_fmt"] in ("export", "tigerxml"):
        job["dest_fmt"] = "discobrackets"     # positional ids restart in B
    if job.get("termfile"):
        job.pop("termfile")
        job["trans"] = []
        job.pop("params", None)
    tree = S.tree_model(max_tokens=6, disc=0.0 if cont else 0.5, words=st.sampled_from(["a", "b", ",", "Haus", "ä"]),
                        labels=st.sampled_from(["S", "NP", "VP"]), pos=st.sampled_from(["NN", "VB", "$,"]), edges=st.sampled_from(["HD", "NK", "--"]))
    a = draw(st.lists(tree, min_size=1, max_size=3))
    b = draw(st.lists(tree, min_size=1, max_size=3))
    # sentence ids are data, not positions: 0 is an id like any other, and B's ids need not continue A's
    base_a, base_b = draw(st.sampled_from([(10, 13), (10, 13), (0, 3), (5, 0), (20, 7)]))
    for i, t in enumerate(a):
        t["sid"] = base_a + i
    for i, t in enumerate(b):
        t["sid"] = base_b + i
    job.pop("trees", None)
    return {"job": job, "a": a, "b": b}


def large_concat_case(fmt):
    words = ["ABCDEFGHIJKLMNOP", "Donaudampfschiff", "x", "und", "Zusammenhangsloses"]

    def bank(start, count):
        out = []
        for i in range(start, start + count):
            toks = [{"w": words[(i + k) % len(words)] + str(i % 7), "p": "NN", "n": k + 1, "e": "HD", "lem": "--", "m": "--"} for k in range(3)]
            root = {"l": "VROOT", "e": "--", "c": [{"l": "NP", "e": "SB", "c": toks[:2]}, toks[2]]}
            out.append({"sid": i + 1, "root": root})
        return out
    return {"job": {"kind": "transform", "src_fmt": fmt, "dest_fmt": "discobrackets", "trans": []}, "a": bank(0, 900), "b": bank(900, 1000)}


def gen_concat(ctx):
    quick = ctx.tier == "quick"
    if ctx.shard == 0:
        # one large pair (files of ~90 and ~100 kB): sentence-locality must not depend on where a buffer boundary falls
        for fmt in ("brackets", "export"):
            case = large_concat_case(fmt)
            try:
                ctx.run_case(check_concat, case)
            except Violation as vio:
                ctx.record(vio)
            ctx.count(key=("large", fmt), nontrivial=True, classes=["concat:large-" + fmt])

    def body(case):
        check_concat(case)
        ctx.count(key=case, nontrivial=True, classes=["concat:" + case["job"]["kind"]])
        ctx.sample(describe(case["job"]), cap=1)
    ctx.hyp(concat_case(), body, max_examples=8 if quick else 60, shrink=False)


UNITS = [Unit("history", gen_history, check_history, shards=(10, 16)),
         Unit("concat", gen_concat, check_concat, shards=(3, 8)),
         Unit("hashseed", gen_hashseed, check_hashseed, shards=(3, 8))]


# ----------------------------------------------------------------------------------------------- API-level interleaving

def check_interleave(case):
    """Two or three independent pipelines (reader -> transformations -> writer + grammar extraction) are executed once one
    after the other and once interleaved tree by tree according to a drawn schedule, in this process; every pipeline's
    outputs must be the same."""
    import contextlib
    import io
    from vlib.repo import treeinput, treeoutput, transform, grammar
    from vlib.runner import call
    workdir = tempfile.mkdtemp(prefix="c18i_")
    try:
        streams = []
        for i, spec in enumerate(case["streams"]):
            src = os.path.join(workdir, "s%d.%s" % (i, spec["src_fmt"]))
            write_input(src, spec["src_fmt"], spec["trees"])
            params = {"quiet": True}
            for item in spec.get("params", []):
                key, _, val = item.partition(":")
                params[key] = (int(val) if val.isdigit() else val) if val else True
            if spec.get("termfile") is not None:
                tf = os.path.join(workdir, "terms_%d_%d.txt" % (os.getpid(), i))
                with open(tf, "w", encoding="utf-8") as stream:
                    for line in spec["termfile"]:
                        stream.write("\t".join(str(x) for x in line) + "\n")
                params["terminalfile"] = tf
            streams.append((spec, src, params))

        def open_reader(spec, src):
            return getattr(treeinput, spec["src_fmt"])(src, "utf-8", quiet=True)

        def step(spec, params, tree, out, gram, lex):
            for name in spec["trans"]:
                tree = call("C18/interleave/" + name, getattr(transform, name), tree, **params)
                if tree is None:
                    return      # filtered out
            call("C18/interleave/extract", grammar.extract, tree, gram, lex)
            call("C18/interleave/" + spec["dest_fmt"], getattr(treeoutput, spec["dest_fmt"]), tree, out)

        def run(schedule):
            outs = [io.StringIO() for _ in streams]
            grams = [({}, {}) for _ in streams]
            readers = [open_reader(spec, src) for spec, src, _p in streams]
            with contextlib.redirect_stdout(io.StringIO()), contextlib.redirect_stderr(io.StringIO()):
                for idx in schedule:
                    spec, _src, params = streams[idx]
                    try:
                        tree = next(readers[idx])
                    except StopIteration:
                        continue
                    step(spec, params, tree, outs[idx], grams[idx][0], grams[idx][1])
                for idx, reader in enumerate(readers):     # drain what the schedule left
                    spec, _src, params = streams[idx]
                    for tree in reader:
                        step(spec, params, tree, outs[idx], grams[idx][0], grams[idx][1])
            return [(o.getvalue(), g, {w: dict(c) for w, c in l.items()}) for o, (g, l) in zip(outs, grams)]

        sequential = call("C18/interleave/sequential", run, [i for i, (spec, _s, _p) in enumerate(streams) for _ in spec["trees"]])
        mixed = call("C18/interleave/interleaved", run, [s % len(streams) for s in case["schedule"]])
        for i, (a, b) in enumerate(zip(sequential, mixed)):
            if a != b:
                what = "written text" if a[0] != b[0] else ("grammar" if a[1] != b[1] else "lexicon")
                raise violation("C18/interleave/differs", "pipeline %d (%r) gives a different %s when its trees are processed interleaved with %r"
                                % (i, describe(case["streams"][i]), what, [describe(s) for j, s in enumerate(case["streams"]) if j != i]))
    finally:
        shutil.rmtree(workdir, ignore_errors=True)
    return True


@st.composite
def interleave_case(draw):
    streams = []
    for _ in range(draw(st.integers(2, 3))):
        job = draw(job_strategy(kinds=("transform",)))
        job.setdefault("trans", [])
        job["trans"] = [t for t in job["trans"] if t != "punctuation_delete"]
        if job["dest_fmt"] == "terminals":
            job["dest_fmt"] = "export"
        job.pop("dest_opts", None)
        streams.append(job)
    return {"streams": streams, "schedule": draw(st.lists(st.integers(0, 5), min_size=2, max_size=12))}


def gen_interleave(ctx):
    quick = ctx.tier == "quick"

    def body(case):
        check_interleave(case)
        two_tf = len([s for s in case["streams"] if s.get("termfile")]) >= 2
        ctx.count(key=case, nontrivial=True, classes=["interleave:streams=%d" % len(case["streams"])] + (["interleave:two-terminal-files"] if two_tf else []))
    ctx.hyp(interleave_case(), body, max_examples=150 if quick else 1500)


UNITS.append(Unit("interleave", gen_interleave, check_interleave, shards=(2, 8)))


# ----------------------------------------------------------------------------------------------- concatenation, API level (cheap, many cases)

def check_concat_api(case):
    """output(A+B) = output(A) ++ output(B) / sum, through the API in this process (grammar types, writers, statistics)"""
    import contextlib
    import io
    from vlib.repo import T, treeoutput, grammar, treeanalysis, transitions as TR, transform
    from vlib.runner import call
    from checks.C07 import REORD
    a, b = case["a"], case["b"]

    def extract(bank):
        gram, lex = {}, {}
        for tree in bank:
            call("C18/concat-api/extract", grammar.extract, M.build(tree, T), gram, lex)
        return gram, lex

    def flat(gram):
        return Counter({(f, l, v): c for f in gram for l in gram[f] for v, c in gram[f][l].items()})

    ga, la = extract(a)
    gb, lb = extract(b)
    gab, lab = extract(a + b)
    if flat(ga) + flat(gb) != flat(gab):
        diff = [(k, flat(ga).get(k, 0) + flat(gb).get(k, 0), flat(gab).get(k, 0)) for k in set(flat(ga)) | set(flat(gb)) | set(flat(gab))
                if flat(ga).get(k, 0) + flat(gb).get(k, 0) != flat(gab).get(k, 0)]
        raise violation("C18/concat-api/treebank-grammar", "rule, count(A)+count(B), count(A+B): %r" % (diff[:2],))
    merged = Counter()
    for lex in (la, lb):
        for word, tags in lex.items():
            for tag, cnt in tags.items():
                merged[(word, tag)] += cnt
    if merged != Counter({(w, t): c for w, tags in lab.items() for t, c in tags.items()}):
        raise violation("C18/concat-api/lexicon", "lexicon(A+B) is not the sum")
    opts = {"v": case["v"], "h": case["h"]}
    if case["nofanout"]:
        opts["nofanout"] = True
    reord = REORD[case["reordering"]]
    ba = call("C18/concat-api/binarize", grammar.binarize, ga, reordering=reord, markov_opts=dict(opts))
    bb = call("C18/concat-api/binarize", grammar.binarize, gb, reordering=reord, markov_opts=dict(opts))
    bab = call("C18/concat-api/binarize", grammar.binarize, gab, reordering=reord, markov_opts=dict(opts))
    if flat(ba) + flat(bb) != flat(bab):
        raise violation("C18/concat-api/markov-grammar", "Markovized grammar (v=%d h=%d nofanout=%r %s) of A+B is not the sum of the parts"
                        % (case["v"], case["h"], case["nofanout"], case["reordering"]))
    # writers and statistics
    def written(bank, fmt):
        out = io.StringIO()
        with contextlib.redirect_stderr(io.StringIO()), contextlib.redirect_stdout(io.StringIO()):
            for tree in bank:
                call("C18/concat-api/" + fmt, getattr(treeoutput, fmt), M.build(tree, T), out)
        return out.getvalue()
    for fmt in ("export", "discobrackets", "tigerxml", "terminals"):
        if written(a, fmt) + written(b, fmt) != written(a + b, fmt):
            raise violation("C18/concat-api/writer", "%s output of A+B is not the concatenation" % fmt)

    def stats(bank):
        inst = treeanalysis.GapDegree()
        for tree in bank:
            call("C18/concat-api/GapDegree", inst.run, M.build(tree, T))
        return Counter(inst.gaps_per_tree), Counter(inst.gaps_per_node)
    sa, sb, sab = stats(a), stats(b), stats(a + b)
    if (sa[0] + sb[0], sa[1] + sb[1]) != sab:
        raise violation("C18/concat-api/statistics", "GapDegree counters of A+B are not the sums")
    return True


def gen_concat_api(ctx):
    from checks.C06 import treebank
    quick = ctx.tier == "quick"

    @st.composite
    def cases(draw):
        bank = treebank(7 if quick else 10, 4)
        a = draw(bank)
        b = draw(bank)
        if draw(st.booleans()):
            b = b + [a[0]]          # shared material between A and B
        return {"a": a, "b": b, "v": draw(st.integers(0, 3)), "h": draw(st.integers(0, 3)), "nofanout": draw(st.booleans()),
                "reordering": draw(st.sampled_from(["none", "optimal"]))}

    def body(case):
        check_concat_api(case)
        ctx.count(key=case, nontrivial=True, classes=["concat-api"])
    ctx.hyp(cases(), body, max_examples=250 if quick else 2500)


UNITS.append(Unit("concat_api", gen_concat_api, check_concat_api, shards=(2, 8)))


# ----------------------------------------------------------------------------------------------- concatenation through the real entry point, in-process

def check_concat_inproc(case):
    """`treetools transform` (same script through runpy, in this process) on A, B and A+B: sentence-local processing means
    output(A+B) = output(A) ++ output(B), also when a transformation drops sentences"""
    from vlib import cli as CLI
    workdir = tempfile.mkdtemp(prefix="c18c_")
    try:
        outs = []
        for tag, trees in (("a", case["a"]), ("b", case["b"]), ("ab", case["a"] + case["b"])):
            src = os.path.join(workdir, tag + ".export")
            write_input(src, "export", trees)
            dest = os.path.join(workdir, tag + ".out")
            argv = ["transform", src, dest, "--src-format", "export", "--src-opts", "quiet", "--dest-format", case["dest_fmt"]]
            if case["trans"]:
                argv += ["--trans"] + case["trans"]
            if case["params"]:
                argv += ["--params"] + case["params"]
            res = CLI.run_inproc(argv)
            if res.code != 0:
                raise violation("C18/concat-inproc/job-failed", "transform %r on corpus %s exits with %d: %s" % (argv[5:], tag, res.code, res.err[-300:]))
            with open(dest, "rb") as stream:
                outs.append(stream.read())
        if case["dest_fmt"] == "tigerxml":
            la, lb, lab = ([(c["sid"], M.canon(c["root"])) for c in CT.decode_tigerxml(x)] for x in outs)
            same = la + lb == lab
        else:
            same = outs[0] + outs[1] == outs[2]
        if not same:
            raise violation("C18/concat-inproc/transform", "output for A+B differs from output(A) + output(B): --trans %r --params %r -> %s"
                            % (case["trans"], case["params"], case["dest_fmt"]))
    finally:
        shutil.rmtree(workdir, ignore_errors=True)
    return True


def gen_concat_inproc(ctx):
    quick = ctx.tier == "quick"
    tree = S.tree_model(max_tokens=6, disc=0.5, words=st.sampled_from(["a", "b", ",", "Haus", "ä"]), labels=st.sampled_from(["S", "NP", "VP"]),
                        pos=st.sampled_from(["NN", "VB", "$,"]), edges=st.sampled_from(["HD", "NK", "--"]))

    @st.composite
    def cases(draw):
        a = draw(st.lists(tree, min_size=1, max_size=4))
        b = draw(st.lists(tree, min_size=1, max_size=4))
        base_a, base_b = draw(st.sampled_from([(10, 14), (10, 14), (0, 4), (5, 0), (20, 7)]))
        for i, t in enumerate(a):
            t["sid"] = base_a + i
        for i, t in enumerate(b):
            t["sid"] = base_b + i
        trans, params = draw(st.sampled_from([(["filter_by_length"], None), (["filter_by_length"], None), ([], []), (["root_attach"], []),
                                               (["negra_mark_heads", "boyd_split", "raising"], []), (["punctuation_delete"], ["quiet"]),
                                               (["add_topnode", "filter_by_length"], None)]))
        if params is None:
            params = ["filteroperator:%s" % draw(st.sampled_from(["lt", "gt", "eq"])), "filtervalue:%d" % draw(st.integers(1, 5))]
        return {"a": a, "b": b, "trans": trans, "params": params, "dest_fmt": draw(st.sampled_from(["export", "discobrackets", "tigerxml", "terminals"]))}

    def body(case):
        check_concat_inproc(case)
        ctx.count(key=case, nontrivial=True, classes=["concat-inproc:" + ("filter" if "filter_by_length" in case["trans"] else "plain")])
    ctx.hyp(cases(), body, max_examples=120 if quick else 1500)


UNITS.append(Unit("concat_inproc", gen_concat_inproc, check_concat_inproc, shards=(2, 8)))
