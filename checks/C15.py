"""C15 - head marking selects exactly one head child per constituent, as the rule says."""
import io
from hypothesis import strategies as st

from vlib import model as M
from vlib import strategies as S
from vlib.runner import Unit, violation, call, Violation
from vlib.repo import T, transform, transformconst

RULE = ("negra: Hypothesis trees (<=10/14 tokens, arity<=6) with edge labels drawn from {HD,NK,SB,--} so that several HD, several "
        "NK or none occur; expected head = leftmost HD, else rightmost NK, else leftmost. table: exhaustively every parent "
        "category of both presets x every category listed in its rule(s) x arity 2..4 x position, the other children unlisted; "
        "rules: Hypothesis variants of the same with random case, decorated labels (NP-SBJ-1, VP=2, X') and embedding in larger "
        "trees; plus invalid presets. Oracle: exactly one head child per constituent, all other non-root nodes False, root "
        "False, ' printed exactly on head nodes. Non-trivial = a constituent with >=3 children whose head is not the first.")
ASSUMPTIONS = ["rule tables are read from transformconst.HEAD_RULES_* as data (category lists split at blanks); only the "
               "documented claim is checked: a child that is the only listed one must become the head",
               "parents whose rule lists are empty are only checked for 'exactly one head'"]

PRESETS = {"negra": transformconst.HEAD_RULES_NEGRA, "ptb": transformconst.HEAD_RULES_PTB}


def listed(preset, parent):
    out = []
    for _direction, cats in PRESETS[preset].get(parent.lower(), []):
        out.extend(cats.split())
    return out


def heads_ok(prefix, result, case, expect_head):
    """expect_head(model constituent) -> index into M.kids(node) or None (= only 'exactly one')."""
    try:
        snap, _ = M.snapshot(result, flags=True)
    except M.Malformed as bad:
        raise violation(prefix + "/malformed:" + bad.reason, str(bad))
    if M.canon(snap) != M.canon(case["root"]):
        raise violation(prefix + "/tree-changed", "head marking changed tokens, labels or structure")
    if snap.get("h") is not False:
        raise violation(prefix + "/root-marked", "root head flag is %r" % (snap.get("h"),))
    nontrivial = False
    for got, orig in zip(M.preorder(snap), M.preorder(case["root"])):
        if M.is_tok(got):
            continue
        flags = [child.get("h") for child in M.kids(got)]
        if any(f is not True and f is not False for f in flags):
            raise violation(prefix + "/child-unmarked", "children of %s have head flags %r" % (got["l"], flags))
        if flags.count(True) != 1:
            raise violation(prefix + "/not-exactly-one-head", "children of %s have head flags %r" % (got["l"], flags))
        exp = expect_head(orig)
        if exp is not None and flags.index(True) != exp:
            raise violation(prefix + "/wrong-head", "%s -> %r: head at %d, rule says %d"
                            % (got["l"], [c.get("l", c.get("p")) for c in M.kids(orig)], flags.index(True), exp))
        if len(flags) >= 3 and flags.index(True) > 0:
            nontrivial = True
    # the ' mark with mark_heads_marking appears exactly on head nodes
    stack = [result]
    while stack:
        node = stack.pop()
        label = call(prefix + "/get_label", T.get_label, node, mark_heads_marking=True)
        want = node.data["label"] + ("'" if node.data.get("head") else "")
        if label != want:
            raise violation(prefix + "/marking-output", "get_label gives %r for node with head=%r" % (label, node.data.get("head")))
        stack.extend(node.children)
    return nontrivial


def negra_expect(node):
    edges = [c.get("e") for c in M.kids(node)]
    if "HD" in edges:
        return edges.index("HD")
    if "NK" in edges:
        return len(edges) - 1 - edges[::-1].index("NK")
    return 0


def check_negra(case):
    tree = M.build(case, T)
    if case.get("pre"):
        # history on the same tree object: earlier markings and token edits; judged against the tree as it is then
        from checks.C12 import apply_pre
        for step in case["pre"]:
            if step[0] == "mark":
                tree = call("C15/pre/negra_mark_heads", transform.negra_mark_heads, tree)
            elif step[0] == "rules":
                tree = call("C15/pre/mark_heads_by_rules", transform.mark_heads_by_rules, tree, mark_heads_preset=step[1])
            elif step[0] == "all":
                stack = [tree]
                while stack:
                    node = stack.pop()
                    node.data["head"] = True
                    stack.extend(node.children)
            else:
                tree = apply_pre(tree, [step])
        try:
            case = {"sid": case["sid"], "root": M.strip_ids(M.snapshot(tree)[0])}
        except M.Malformed as bad:
            raise violation("C15/pre/malformed:" + bad.reason, str(bad))
    result = call("C15/negra_mark_heads", transform.negra_mark_heads, tree)
    return heads_ok("C15/negra", result, case, negra_expect)


def bare(node):
    """category without function / index / head decorations: known by construction ('cat'), else through the
    independent reference label parser of checks/C20.py"""
    if "cat" in node:
        return node["cat"]
    from checks.C20 import refparse
    return refparse(node.get("l", node.get("p")), "-")["label"]


def check_rules(case):
    """case: {"preset":..., "tree": model case, "cats": {path: bare category}} - bare categories are stored in the
    model nodes under key 'cat' by the generator."""
    preset = case["preset"]
    if case.get("warm", True):
        # history: the same tree is first marked with the other preset (fresh copy); results must not leak
        other = "ptb" if preset == "negra" else "negra"
        call("C15/mark_heads_by_rules", transform.mark_heads_by_rules, M.build(case["tree"], T), mark_heads_preset=other)
    tree = M.build(case["tree"], T)
    premark = case.get("premark")
    if premark:
        # marks already on the SAME tree (an earlier marker of either kind, or flags set by hand): "every other child
        # is marked as non-head" holds whatever was there before
        if premark == "negra":
            tree = call("C15/pre/negra_mark_heads", transform.negra_mark_heads, tree)
        elif premark == "other":
            tree = call("C15/pre/mark_heads_by_rules", transform.mark_heads_by_rules, tree, mark_heads_preset="ptb" if preset == "negra" else "negra")
        else:
            stack = [tree]
            while stack:
                node = stack.pop()
                node.data["head"] = True
                stack.extend(node.children)
    result = call("C15/mark_heads_by_rules", transform.mark_heads_by_rules, tree, mark_heads_preset=preset)

    def expect(node):
        cats = listed(preset, bare(node))
        if not cats:
            return None
        hits = [i for i, child in enumerate(M.kids(node)) if bare(child).lower() in cats]
        return hits[0] if len(hits) == 1 else None
    return heads_ok("C15/rules", result, case["tree"], expect)


def check_invalid(case):
    tree = M.build(case["tree"], T)
    params = case["params"]
    try:
        call("C15/invalid-source", transform.mark_heads_by_rules, tree, _allowed=(ValueError,), **params)
    except ValueError:
        return False
    raise violation("C15/rules/invalid-source-accepted", "mark_heads_by_rules accepted parameters %r" % (params,))


# ------------------------------------------------------------------------------------------- generators

def decorate(draw, cat):
    out = draw(st.sampled_from([cat, cat.upper(), cat.lower(), cat.capitalize()])) if cat.isalpha() else cat
    if cat.isalpha() or cat in ("$.", "$,", "$"):
        if draw(st.integers(0, 3)) == 0:
            out += "-" + draw(st.sampled_from(["SBJ", "HD", "OA", "TMP"]))
        if draw(st.integers(0, 4)) == 0:
            out += "=" + str(draw(st.integers(1, 9)))
        if draw(st.integers(0, 4)) == 0:
            out += "-" + str(draw(st.integers(1, 9)))
        if draw(st.integers(0, 6)) == 0:
            out += "'"
    return out


UNLISTED = ["zz", "qq", "foo", "xyz"]


def family(preset, parent, head_cat, arity, position, draw=None):
    """One constituent `parent` with `arity` children, exactly one of them (at `position`) of a listed category."""
    cats = listed(preset, parent)
    kids = []
    for i in range(arity):
        cat = head_cat if i == position else UNLISTED[i % len(UNLISTED)]
        label = decorate(draw, cat) if draw else cat.upper()
        as_token = (draw(st.booleans()) if draw else (i % 2 == 0))
        if as_token:
            kids.append({"w": "w%d" % i, "p": label, "cat": cat, "n": i + 1, "e": "--", "lem": "--", "m": "--"})
        else:
            kids.append({"l": label, "cat": cat, "e": "--", "lem": "--", "m": "--",
                         "c": [{"w": "w%d" % i, "p": "zz", "cat": "zz", "n": i + 1, "e": "--", "lem": "--", "m": "--"}]})
    plabel = decorate(draw, parent) if draw else parent.upper()
    node = {"l": plabel, "cat": parent, "e": "--", "lem": "--", "m": "--", "c": kids}
    root = {"l": "VROOT", "cat": "top", "e": "--", "lem": "--", "m": "--", "c": [node]}
    return {"preset": preset, "tree": {"sid": 1, "root": root}}


def table_cases():
    for preset in ("negra", "ptb"):
        for parent in sorted(PRESETS[preset]):
            cats = listed(preset, parent)
            for head_cat in sorted(set(cats)):
                for arity in (2, 3, 4):
                    for position in range(arity):
                        yield family(preset, parent, head_cat, arity, position)


def gen_table(ctx):
    complete = True
    for i, case in enumerate(table_cases()):
        if i % ctx.nshards != ctx.shard:
            continue
        if ctx.time_up():
            ctx.inconclusive = True
            complete = False
            break
        case["premark"] = [None, "negra", "other", "all"][i % 4]
        res = []
        try:
            ctx.run_case(lambda c: res.append(check_rules(c)), case)
        except Violation as vio:
            ctx.record(vio)
            continue
        ctx.count(nontrivial=bool(res and res[0]), by_construction=True, classes=["table:" + case["preset"]])
        if res and res[0]:
            ctx.sample(case, cap=1)
    if complete:
        ctx.exhaustive = "every (preset, parent category, listed category, arity 2..4, position) with all other children unlisted"


@st.composite
def rules_case(draw):
    preset = draw(st.sampled_from(["negra", "ptb"]))
    parents = [p for p in sorted(PRESETS[preset]) if listed(preset, p)]
    parent = draw(st.sampled_from(parents))
    head_cat = draw(st.sampled_from(sorted(set(listed(preset, parent)))))
    arity = draw(st.integers(1, 6))
    position = draw(st.integers(0, arity - 1))
    case = family(preset, parent, head_cat, arity, position, draw)
    # embed: the family's tokens are renumbered behind 0..2 extra tokens hanging under the root
    extra = draw(st.integers(0, 2))
    if extra:
        root = case["tree"]["root"]
        for tok in M.toks(root):
            tok["n"] += extra
        for i in range(extra):
            root["c"].append({"w": "e%d" % i, "p": draw(st.sampled_from(["$.", "NN", "zz"])), "n": i + 1, "e": "--", "lem": "--", "m": "--"})
    case["premark"] = draw(st.sampled_from([None, None, "negra", "other", "all"]))
    return case


def gen_rules(ctx):
    def body(case):
        res = check_rules(case)
        ctx.count(key=case, nontrivial=res, classes=["rules:" + case["preset"]])
        if res:
            ctx.sample(case, cap=1)
    ctx.hyp(rules_case(), body, max_examples=1500 if ctx.tier == "quick" else 10000)


def gen_rules_random(ctx):
    """Arbitrary trees whose labels happen to be in the tables or not: only 'exactly one head' etc."""
    labels = st.sampled_from(["S", "NP", "VP", "PP", "X", "np", "Vp-SBJ", "AP", "CO", "FRAG", "WHNP"])
    pos = st.sampled_from(["NN", "VVFIN", "ART", "nn", "VB", "IN", "$.", "zz"])

    def body(case):
        res = check_rules({"preset": case["preset"], "tree": case["tree"], "premark": case["premark"]})
        ctx.count(key=case, nontrivial=res, classes=["rules-random:" + case["preset"]])
    strategy = st.fixed_dictionaries({"preset": st.sampled_from(["negra", "ptb"]), "premark": st.sampled_from([None, "negra", "other", "all"]),
                                      "tree": S.tree_model(max_tokens=8, labels=labels, pos=pos, max_arity=5)})
    ctx.hyp(strategy, body, max_examples=600 if ctx.tier == "quick" else 4000)


def gen_negra(ctx):
    edges = st.sampled_from(["HD", "HD", "NK", "NK", "SB", "--", "OA"])

    def body(case):
        res = check_negra(case)
        hist = []
        for node in M.constituents(case["root"]):
            es = [c.get("e") for c in node["c"]]
            hist.append("HD>=2" if es.count("HD") >= 2 else ("HD=1" if "HD" in es else ("NK>=2" if es.count("NK") >= 2 else ("NK=1" if "NK" in es else "none"))))
        ctx.count(key=case["root"], nontrivial=res, classes=["negra:" + h for h in set(hist)])
        if res:
            ctx.sample(case["root"], cap=1)
    steps = st.one_of(st.just(["mark"]), st.just(["rules", "negra"]), st.just(["rules", "ptb"]), st.just(["all"]), st.tuples(st.just("insert"), st.integers(0, 20), st.sampled_from([",", "x"])).map(list),
                      st.tuples(st.just("delete"), st.integers(0, 20)).map(list))
    strategy = st.builds(lambda tree, pre: dict(tree, pre=pre), S.tree_model(max_tokens=10 if ctx.tier == "quick" else 14, edges=edges, max_arity=6, disc=0.4),
                         st.one_of(st.just([]), st.just([]), st.lists(steps, min_size=1, max_size=3)))
    ctx.hyp(strategy, body, max_examples=1500 if ctx.tier == "quick" else 8000)


def gen_invalid(ctx):
    tree = {"sid": 1, "root": {"l": "VROOT", "e": "--", "c": [{"w": "a", "p": "NN", "n": 1, "e": "--", "lem": "--", "m": "--"}]}}
    cases = [{"tree": tree, "params": {}},
             {"tree": tree, "params": {"mark_heads_preset": "foo"}},
             {"tree": tree, "params": {"mark_heads_preset": "NEGRA "}},
             {"tree": tree, "params": {"mark_heads_preset": ""}},
             {"tree": tree, "params": {"mark_heads_preset": "negra", "mark_heads_rulefile": "x"}},
             {"tree": tree, "params": {"quiet": True}}]
    for case in cases:
        try:
            ctx.run_case(check_invalid, case)
        except Violation as vio:
            ctx.record(vio)
        ctx.count(key=case, nontrivial=True, classes=["invalid-source"])


UNITS = [Unit("negra", gen_negra, check_negra, shards=(2, 8)),
         Unit("table", gen_table, check_rules, shards=(2, 4)),
         Unit("rules", gen_rules, check_rules, shards=(2, 8)),
         Unit("rules_random", gen_rules_random, check_rules, shards=(1, 4)),
         Unit("invalid", gen_invalid, check_invalid, shards=(1, 1))]


from vlib import clidiff
UNITS.append(clidiff.unit("C15"))
