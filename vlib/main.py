import sys
from vlib.runner import main
sys.exit(main())
