"""Independent encoders and decoders for the treebank file formats (no repository code)."""
import io
import re
from vlib import model as M

PAREN_NAMES = {"(": "LRB", ")": "RRB", "[": "LSB", "]": "RSB", "{": "LCB", "}": "RCB",
               "-LRB-": "LRB", "-RRB-": "RRB", "-LSB-": "LSB", "-RSB-": "RSB", "-LCB-": "LCB", "-RCB-": "RCB"}


def replace_parens(text):
    """The documented table applied the way the repository documents it: plain substring replacement."""
    if text is None:
        return None
    for key in ["(", "-LRB-", "[", "-LSB-", "{", "-LCB-", ")", "-RRB-", "]", "-RSB-", "}", "-RCB-"]:
        text = text.replace(key, PAREN_NAMES[key])
    return text


# --------------------------------------------------------------------------- export

def number_constituents(root, order="postorder", start=500, numbers=None):
    """Assign numbers to the non-root constituents.  Returns {id(node): number}; root -> 0."""
    cons = []

    def post(node):
        for child in M.kids(node):
            if not M.is_tok(child):
                post(child)
        cons.append(node)
    post(root)
    cons = [c for c in cons if c is not root]
    if numbers is None:
        numbers = list(range(start, start + len(cons)))
    out = {id(root): 0}
    for node, num in zip(cons, numbers):
        out[id(node)] = num
    return out


def encode_export_sentence(case, v4=False, sep="\t", numbers=None, con_order=None, secedges=False, comment=False,
                           bos_extra=""):
    root = case["root"]
    number = number_constituents(root, numbers=numbers)
    parent = {}
    for node in M.preorder(root):
        for child in node.get("c", ()):
            parent[id(child)] = node
    lines = ["#BOS %d%s" % (case["sid"], bos_extra)]

    def fields(node, word):
        out = [word]
        if v4:
            out.append(node.get("lem") or "--")
        out.append(node["p"] if M.is_tok(node) else node["l"])
        out.append(node.get("m") or "--")
        out.append(node.get("e") or "--")
        out.append(str(number[id(parent[id(node)])]))
        if secedges:
            out.extend(["SE", "500"])
        if comment:
            out.append("%% a comment")
        return sep.join(out)
    for tok in M.toks(root):
        lines.append(fields(tok, tok["w"]))
    cons = [n for n in M.preorder(root) if not M.is_tok(n) and n is not root]
    cons.sort(key=lambda n: number[id(n)])
    if con_order is not None:
        cons = [cons[i] for i in con_order]
    for node in cons:
        lines.append(fields(node, "#%d" % number[id(node)]))
    lines.append("#EOS %d" % case["sid"])
    return "\n".join(lines) + "\n"


def encode_export(cases, header=False, **kw):
    out = []
    if header:
        out.append("%% generated corpus\n#FORMAT %d\n#BOT ORIGIN\n#EOT ORIGIN\n" % (4 if kw.get("v4") else 3))
    for case in cases:
        out.append(encode_export_sentence(case, **kw))
    return "".join(out)


# --------------------------------------------------------------------------- export decoder

class DecodeError(Exception):
    pass


def decode_export(text, v4):
    """Decode export text as written by a writer: returns list of cases; checks the format invariants that the
    property names (tokens first in order, constituents numbered from 500 uniquely and consecutively, parents resolve,
    children numbered below their parent, #BOS/#EOS carry the same id)."""
    cases = []
    lines = text.split("\n")
    if lines and lines[-1] == "":
        lines.pop()
    i = 0
    width = 6 if v4 else 5
    while i < len(lines):
        line = lines[i]
        if not line.startswith("#BOS "):
            raise DecodeError("expected #BOS, got %r" % line)
        try:
            sid = int(line.split()[1])
        except (IndexError, ValueError):
            raise DecodeError("bad #BOS line %r" % line)
        i += 1
        rows = []
        while i < len(lines) and not lines[i].startswith("#EOS"):
            fields = lines[i].split()
            if len(fields) != width:
                raise DecodeError("line %r has %d fields, expected %d" % (lines[i], len(fields), width))
            if "\t" not in lines[i]:
                raise DecodeError("line %r is not tab separated" % lines[i])
            rows.append(fields)
            i += 1
        if i >= len(lines):
            raise DecodeError("missing #EOS")
        eos = lines[i].split()
        if len(eos) != 2 or eos[1] != str(sid):
            raise DecodeError("#EOS %r does not match #BOS %d" % (lines[i], sid))
        i += 1
        tokens, cons = [], {}
        seen_con = False
        for fields in rows:
            word = fields[0]
            rest = fields[1:]
            lemma = rest.pop(0) if v4 else None
            label, morph, edge, parent = rest
            try:
                parent = int(parent)
            except ValueError:
                raise DecodeError("parent %r not a number" % parent)
            if len(word) == 4 and word[0] == "#" and word[1:].isdigit():
                seen_con = True
                num = int(word[1:])
                if num in cons:
                    raise DecodeError("constituent number %d used twice" % num)
                cons[num] = {"l": label, "e": edge, "m": morph, "lem": lemma, "c": [], "_parent": parent, "_num": num}
            else:
                if seen_con:
                    raise DecodeError("token %r after a constituent line" % word)
                tokens.append({"w": word, "p": label, "n": len(tokens) + 1, "e": edge, "m": morph, "lem": lemma, "_parent": parent})
        if sorted(cons) != list(range(500, 500 + len(cons))):
            raise DecodeError("constituent numbers %r are not consecutive from 500" % sorted(cons))
        if list(cons) != sorted(cons):
            raise DecodeError("constituent lines not in ascending order: %r" % list(cons))
        root = {"l": "VROOT", "e": "--", "c": []}
        for node in tokens + [cons[k] for k in sorted(cons)]:
            par = node["_parent"]
            if par == 0:
                root["c"].append(node)
            elif par in cons:
                if "_num" in node and node["_num"] >= par:
                    raise DecodeError("constituent %d is not numbered below its parent %d" % (node["_num"], par))
                cons[par]["c"].append(node)
            else:
                raise DecodeError("parent reference %d does not resolve" % par)
        for node in cons.values():
            if not node["c"]:
                raise DecodeError("constituent %d has no children" % node["_num"])
        for node in tokens + list(cons.values()):
            node.pop("_parent", None)
            node.pop("_num", None)
        if not root["c"]:
            raise DecodeError("empty sentence")
        cases.append({"sid": sid, "root": root})
    return cases


# --------------------------------------------------------------------------- bracket formats

def encode_brackets_tree(node, ws, emptypos=False, root_label=True, is_root=True, disco=False):
    """ws(kind) -> whitespace string; kind 'opt' may be empty, 'req' must not be."""
    if M.is_tok(node):
        word = str(node["n"]) if disco else node["w"]
        if emptypos:
            # no whitespace between the word and the closing bracket: after 'label + whitespace' the reader's automaton
            # (documented state 3) expects a word or a child
            return "(" + ws("opt") + word + ")"
        return "(" + ws("opt") + node["p"] + ws("req") + word + ws("opt") + ")"
    out = "("
    if not (is_root and not root_label):
        out += ws("opt") + node["l"]
    for child in M.kids(node):
        out += ws("opt") + encode_brackets_tree(child, ws, emptypos, root_label, False, disco)
    return out + ws("opt") + ")"


def decode_brackets(text, disco=False):
    """Decode bracket writer output: one tree per line -> list of roots (model nodes; words are indices for disco).
    For disco returns (root, sentence tokens)."""
    out = []
    lines = text.split("\n")
    if lines and lines[-1] == "":
        lines.pop()
    for line in lines:
        sentence = None
        if disco:
            if "\t" not in line:
                raise DecodeError("no tab between tree and sentence in %r" % line)
            line, _, tail = line.partition("\t")
            sentence = tail.split(" ")
        pos = [0]

        def parse():
            if pos[0] >= len(line) or line[pos[0]] != "(":
                raise DecodeError("expected ( at %d in %r" % (pos[0], line))
            pos[0] += 1
            start = pos[0]
            while pos[0] < len(line) and line[pos[0]] not in "() ":
                pos[0] += 1
            label = line[start:pos[0]]
            if pos[0] >= len(line):
                raise DecodeError("unterminated group in %r" % line)
            if line[pos[0]] == " ":
                pos[0] += 1
                start = pos[0]
                while pos[0] < len(line) and line[pos[0]] not in "() ":
                    pos[0] += 1
                word = line[start:pos[0]]
                if pos[0] >= len(line) or line[pos[0]] != ")" or word == "":
                    raise DecodeError("bad token group near %d in %r" % (pos[0], line))
                pos[0] += 1
                return {"w": word, "p": label}
            children = []
            while pos[0] < len(line) and line[pos[0]] == "(":
                children.append(parse())
            if pos[0] >= len(line) or line[pos[0]] != ")":
                raise DecodeError("expected ) at %d in %r" % (pos[0], line))
            pos[0] += 1
            if not children:
                raise DecodeError("constituent %r without children in %r" % (label, line))
            return {"l": label, "c": children}
        root = parse()
        if pos[0] != len(line):
            raise DecodeError("trailing material %r" % line[pos[0]:])
        # number the tokens
        if disco:
            for tok in iter_tokens(root):
                if not tok["w"].isdigit():
                    raise DecodeError("token %r is not an index" % tok["w"])
                tok["n"] = int(tok["w"])
            numbers = sorted(t["n"] for t in iter_tokens(root))
            if numbers != list(range(1, len(numbers) + 1)):
                raise DecodeError("indices %r are not 1..n" % numbers)
            if len(sentence) != len(numbers):
                raise DecodeError("%d indices but %d sentence tokens %r" % (len(numbers), len(sentence), sentence))
            for tok in iter_tokens(root):
                tok["w"] = sentence[tok["n"] - 1]
        else:
            for i, tok in enumerate(iter_tokens(root), 1):
                tok["n"] = i
        out.append(root)
    return out


def iter_tokens(node):
    """tokens in textual (depth-first, stored) order"""
    if "c" not in node:
        yield node
    else:
        for child in node["c"]:
            for tok in iter_tokens(child):
                yield tok


def encode_discobrackets(cases, ws=None, root_label=True):
    """The documented layout: one tree per line, a tab, the tokens separated by single blanks."""
    ws = ws or (lambda kind: " " if kind == "req" else "")
    out = []
    for case in cases:
        tree = encode_brackets_tree(case["root"], ws, False, root_label, True, True)
        out.append(tree + "\t" + " ".join(t["w"] for t in M.toks(case["root"])) + "\n")
    return "".join(out)


# --------------------------------------------------------------------------- TIGER-XML

def xml_attr(value):
    return '"' + value.replace("&", "&amp;").replace("<", "&lt;").replace(">", "&gt;").replace('"', "&quot;") + '"'


def encode_tigerxml(cases, encoding="utf-8", sid_format="%d", perm=None, secedges=False, vroot=True, tid=None):
    """perm(list) -> permuted list (attribute order, nt order, edge order); tid(n) -> id string of token n."""
    perm = perm or (lambda x: x)
    tid = tid or (lambda n: "t%d" % n)
    out = ['<?xml version="1.0" encoding="%s" standalone="yes"?>\n<corpus id="c">\n<head><meta><name>x</name></meta></head>\n<body>\n' % encoding]
    for case in cases:
        root = case["root"]
        number = number_constituents(root)
        out.append('<s id=%s>\n<graph root="s_%d">\n  <terminals>\n' % (xml_attr(sid_format % case["sid"]), number[id(root)]))
        for tok in M.toks(root):
            attrs = [("id", tid(tok["n"])), ("word", tok["w"]), ("lemma", tok.get("lem") or "--"), ("pos", tok["p"]), ("morph", tok.get("m") or "--")]
            attrs = [attrs[0]] + list(perm(attrs[1:]))
            inner = ""
            if secedges and tok["n"] == 1:
                inner = '<secedge label="SE" idref="%s" />' % tid(1)
            out.append("    <t %s %s>\n" % (" ".join("%s=%s" % (k, xml_attr(v)) for k, v in attrs), "/" if not inner else "") if not inner
                       else "    <t %s>%s</t>\n" % (" ".join("%s=%s" % (k, xml_attr(v)) for k, v in attrs), inner))
        out.append("  </terminals>\n  <nonterminals>\n")
        cons = [n for n in M.preorder(root) if not M.is_tok(n)]
        if not vroot:
            cons = [n for n in cons if n is not root]
        for node in perm(cons):
            out.append("    <nt id=%s cat=%s>\n" % (xml_attr("n%d" % number[id(node)]), xml_attr(node["l"])))
            for child in perm(list(M.kids(node))):
                ref = tid(child["n"]) if M.is_tok(child) else "n%d" % number[id(child)]
                out.append("      <edge label=%s idref=%s />\n" % (xml_attr(child.get("e") or "--"), xml_attr(ref)))
            out.append("    </nt>\n")
        out.append("  </nonterminals>\n</graph>\n</s>\n")
    out.append("</body>\n</corpus>\n")
    return "".join(out)


def decode_tigerxml(data):
    """data: bytes of a TIGER-XML document as the writer produces it -> list of cases."""
    import xml.etree.ElementTree as ET
    try:
        doc = ET.fromstring(data)
    except ET.ParseError as exc:
        raise DecodeError("not well-formed XML: %s" % exc)
    body = doc.find("body")
    if doc.tag != "corpus" or body is None:
        raise DecodeError("no <corpus><body>")
    cases = []
    for sent in body.findall("s"):
        graph = sent.find("graph")
        if graph is None:
            raise DecodeError("<s> without <graph>")
        nodes = {}
        order = []
        for tok in graph.find("terminals").findall("t"):
            if tok.get("id") in nodes:
                raise DecodeError("id %r used twice" % tok.get("id"))
            nodes[tok.get("id")] = {"w": tok.get("word"), "p": tok.get("pos"), "lem": tok.get("lemma"), "m": tok.get("morph"), "n": len(order) + 1, "e": None}
            order.append(tok.get("id"))
        links = []
        for nt in graph.find("nonterminals").findall("nt"):
            if nt.get("id") in nodes:
                raise DecodeError("id %r used twice" % nt.get("id"))
            nodes[nt.get("id")] = {"l": nt.get("cat"), "e": None, "c": []}
            for edge in nt.findall("edge"):
                links.append((nt.get("id"), edge.get("idref"), edge.get("label")))
        has_parent = set()
        for par, child, label in links:
            if child not in nodes:
                raise DecodeError("idref %r does not resolve" % child)
            if child in has_parent:
                raise DecodeError("node %r has two parents" % child)
            has_parent.add(child)
            nodes[child]["e"] = label
            nodes[par]["c"].append(nodes[child])
        roots = [k for k in nodes if k not in has_parent]
        if len(roots) != 1:
            raise DecodeError("%d roots" % len(roots))
        if graph.get("root") != roots[0]:
            raise DecodeError("graph root attribute %r, parentless node %r" % (graph.get("root"), roots[0]))
        for key, node in nodes.items():
            if "c" in node and not node["c"]:
                raise DecodeError("nonterminal %r without edges" % key)
        try:
            sid = int(sent.get("id"))
        except (TypeError, ValueError):
            raise DecodeError("sentence id %r" % sent.get("id"))
        cases.append({"sid": sid, "root": nodes[roots[0]], "_ids": {k: v for k, v in nodes.items()}})
    return cases
