"""Independent encoders and decoders for the treebank file formats (no repository code)."""
import io
import re
from vlib import model as M

PAREN_NAMES = {"(": "LRB", ")": "RRB", "[": "LSB", "]": "RSB", "{": "LCB", "}": "RCB",
               "-LRB-": "LRB", "-RRB-": "RRB", "-LSB-": "LSB", "-RSB-": "RSB", "-LCB-": "LCB", "-RCB-": "RCB"}


def replace_parens(text):
    """The documented table applied the way the repository documents it: plain substring replacement."""
    if text is None:
        return None
    for key in ["(", "-LRB-", "[", "-LSB-", "{", "-LCB-", ")", "-RRB-", "]", "-RSB-", "}", "-RCB-"]:
        text = text.replace(key, PAREN_NAMES[key])
    return text


# --------------------------------------------------------------------------- export

def number_constituents(root, order="postorder", start=500, numbers=None):
    """Assign numbers to the non-root constituents.  Returns {id(node): number}; root -> 0."""
    cons = []

    def post(node):
        for child in M.kids(node):
            if not M.is_tok(child):
                post(child)
        cons.append(node)
    post(root)
    cons = [c for c in cons if c is not root]
    if numbers is None:
        numbers = list(range(start, start + len(cons)))
    out = {id(root): 0}
    for node, num in zip(cons, numbers):
        out[id(node)] = num
    return out


def encode_export_sentence(case, v4=False, sep="\t", numbers=None, con_order=None, secedges=False, comment=False,
                           bos_extra=""):
    root = case["root"]
    number = number_constituents(root, numbers=numbers)
    parent = {}
    for node in M.preorder(root):
        for child in node.get("c", ()):
            parent[id(child)] = node
    lines = ["#BOS %d%s" % (case["sid"], bos_extra)]

    def fields(node, word):
        out = [word]
        if v4:
            out.append(node.get("lem") or "--")
        out.append(node["p"] if M.is_tok(node) else node["l"])
        out.append(node.get("m") or "--")
        out.append(node.get("e") or "--")
        out.append(str(number[id(parent[id(node)])]))
        if secedges:
            out.extend(["SE", "500"])
        if comment:
            out.append("%% a comment")
        return sep.join(out)
    for tok in M.toks(root):
        lines.append(fields(tok, tok["w"]))
    cons = [n for n in M.preorder(root) if not M.is_tok(n) and n is not root]
    cons.sort(key=lambda n: number[id(n)])
    if con_order is not None:
        cons = [cons[i] for i in con_order]
    for node in cons:
        lines.append(fields(node, "#%d" % number[id(node)]))
    lines.append("#EOS %d" % case["sid"])
    return "\n".join(lines) + "\n"


def encode_export(cases, header=False, **kw):
    out = []
    if header:
        out.append("%% generated corpus\n#FORMAT %d\n#BOT ORIGIN\n#EOT ORIGIN\n" % (4 if kw.get("v4") else 3))
    for case in cases:
        out.append(encode_export_sentence(case, **kw))
    return "".join(out)
