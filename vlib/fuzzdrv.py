"""Drive an atheris campaign (fuzz/fuzz_targets.py) from a check unit and turn crash artifacts into violations."""
import os
import re
import shutil
import subprocess
import sys
import tempfile

from vlib.runner import VERIF, Violation

PY = os.environ.get("VERIF_PYTHON", "/venv/bin/python")


def available():
    env = dict(os.environ, PYTHONPATH=os.path.join(VERIF, ".deps"))
    res = subprocess.run([PY, "-c", "import atheris"], env=env, capture_output=True)
    if res.returncode == 0:
        return True
    subprocess.run([PY, "-m", "pip", "install", "--quiet", "--no-index", "--find-links", "/opt/veriftools/wheels", "--target",
                    os.path.join(VERIF, ".deps"), "atheris"], capture_output=True)
    return subprocess.run([PY, "-c", "import atheris"], env=env, capture_output=True).returncode == 0


def campaign(ctx, target, runs, max_len, seeds, to_case, check, label):
    """seeds: list of bytes for the starting corpus (may be empty).  check(case) raises Violation."""
    if not available():
        ctx.notes.append("atheris not installable from the offline wheelhouse: %s campaign skipped" % label)
        return
    work = tempfile.mkdtemp(prefix="fuzz_")
    try:
        corpus = os.path.join(work, "corpus")
        arts = os.path.join(work, "artifacts")
        os.mkdir(corpus)
        os.mkdir(arts)
        for i, data in enumerate(seeds):
            with open(os.path.join(corpus, "seed%d" % i), "wb") as stream:
                stream.write(data)
        cmd = [PY, "-B", os.path.join(VERIF, "fuzz", "fuzz_targets.py"), target, corpus, "-runs=%d" % runs,
               "-seed=%d" % ((ctx.seed * 100 + ctx.shard) or 1), "-max_len=%d" % max_len, "-artifact_prefix=%s/" % arts, "-print_final_stats=1"]
        env = dict(os.environ, PYTHONHASHSEED="0", PYTHONDONTWRITEBYTECODE="1")
        proc = subprocess.run(cmd, env=env, capture_output=True, timeout=3000, cwd=VERIF)
        err = proc.stderr.decode("utf-8", "replace")
        match = re.search(r"stat::number_of_executed_units:\s*(\d+)", err) or re.search(r"Done (\d+) runs", err)
        done = int(match.group(1)) if match else 0
        ncorpus = len(os.listdir(corpus))
        ctx.evaluations += done
        ctx.distinct_extra += max(0, ncorpus - len(seeds))
        ctx.hist["%s:executions" % label] += done
        ctx.hist["%s:corpus-entries(coverage-increasing inputs)" % label] += ncorpus
        crashes = sorted(os.listdir(arts))
        for name in crashes:
            with open(os.path.join(arts, name), "rb") as stream:
                data = stream.read()
            case = to_case(data)
            try:
                check(case)
            except Violation as vio:
                vio.case = case
                ctx.record(vio)
                continue
            ctx.notes.append("%s: artifact %s did not reproduce in-process (%r)" % (label, name, data[:60]))
        if proc.returncode != 0 and not crashes:
            raise RuntimeError("atheris campaign failed: %s" % err[-600:])
        files = sorted(os.listdir(corpus))
        for name in files[-2:]:
            with open(os.path.join(corpus, name), "rb") as stream:
                ctx.sample({"fuzz_target": target, "corpus_entry": to_case(stream.read())}, cap=8)
    finally:
        shutil.rmtree(work, ignore_errors=True)
