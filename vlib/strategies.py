"""Hypothesis strategies shared by the checks: alphabets, tree shapes, corpora."""
from hypothesis import strategies as st

CATS = ["S", "NP", "VP", "PP", "AP", "X"]
POSTAGS = ["NN", "VB", "ART", "ADJ", "PRP", "$,", "$."]
EDGES = ["HD", "NK", "SB", "OA", "MO", "--"]
PUNCT_WORDS = ['"', "'", "''", "`", "``", "(", ")", "[", "]", "{", "}", "-LRB-", "-RRB-", "-LSB-", "-RSB-",
               "-LCB-", "-RCB-", ".", ",", ";", "?", "!", "--", ":", "-", "/", "..."]
PAIR_WORDS = ['"', "'", "''", "`", "``", "(", ")", "[", "]", "{", "}", "-LRB-", "-RRB-", "-LSB-", "-RSB-",
              "-LCB-", "-RCB-"]

ASCII_LET = "abcxyzABCXYZ019"
ASCII_PUNCT = "&<>\"'#%=-*+/\\@.,;:!?_|~^$"
BRACKET_CHARS = "()[]{}"
LATIN1 = "äöüßéñÅØ"
BMP = "λж中€—"
ASTRAL = "\U0001F600\U0001D538"


def text_of(alphabet, min_size=1, max_size=3):
    return st.text(alphabet=alphabet, min_size=min_size, max_size=max_size)


plain_words = text_of("abcdeABC", 1, 3)


def rich_words(brackets=True, nonascii=True, astral=True, boundary=True):
    """Non-empty strings without whitespace/control characters, biased to short lengths and to the
    export tab-stop boundaries 7/8/15/16."""
    alpha = ASCII_LET + ASCII_PUNCT
    if brackets:
        alpha += BRACKET_CHARS
    if nonascii:
        alpha += LATIN1 + BMP
        if astral:
            alpha += ASTRAL
    parts = [text_of(ASCII_LET, 1, 3), text_of(alpha, 1, 3), st.sampled_from([w for w in PUNCT_WORDS if brackets or not any(c in w for c in BRACKET_CHARS + "LRSCB")] or ["."])]
    if brackets:
        parts.append(st.sampled_from(["-LRB-", "-RRB-", "a(b", ")(", "x)", "-LSB-", "{"]))
    if boundary:
        parts.append(st.sampled_from([7, 8, 15, 16]).flatmap(lambda k: st.text(alphabet=ASCII_LET, min_size=k, max_size=k)))
    return st.one_of(*parts)


@st.composite
def tree_model(draw, min_tokens=1, max_tokens=8, disc=0.5, unary=True, words=plain_words,
               pos=st.sampled_from(POSTAGS), labels=st.sampled_from(CATS), edges=st.sampled_from(EDGES),
               root_label="VROOT", shuffle=True, max_arity=4, fields="full", lemmas=None, morphs=None,
               min_root=1, max_root=None, sid=st.integers(1, 9999), edge_none=False, disc_step=0.5):
    """Bottom-up agglomeration over tokens 1..n.  disc = probability that a grouping step may take a
    non-adjacent subset.  fields: 'full' (lemma/morph strings), 'none' (None), 'mixed'."""
    n = draw(st.integers(min_tokens, max_tokens))
    lemmas = words if lemmas is None else lemmas
    morphs = st.sampled_from(["--", "Nom.Sg", "3.Sg", "*"]) if morphs is None else morphs

    def opt(strategy, default):
        if fields == "full":
            return draw(strategy)
        if fields == "none":
            return None
        return draw(st.one_of(st.none(), strategy))

    def edge():
        if edge_none and draw(st.integers(0, 3)) == 0:
            return None
        return draw(edges)

    items = []
    for i in range(1, n + 1):
        items.append({"w": draw(words), "p": draw(pos), "n": i, "e": edge(),
                      "lem": opt(lemmas, "--"), "m": opt(morphs, "--")})
    mins = list(range(1, n + 1))  # leftmost token of each item, items kept sorted by it
    steps = draw(st.integers(0, n + 2))
    use_disc = disc > 0 and draw(st.floats(0, 1)) < disc
    target_root = draw(st.integers(min_root, max_root if max_root else max(min_root, 4)))
    step = 0
    while True:
        step += 1
        forced = max_root is not None and len(items) > max_root
        if step > steps and not forced:
            break
        if not forced and len(items) <= target_root and len(items) > 1 and draw(st.booleans()):
            break
        lo = 1 if unary else 2
        hi = min(max_arity, len(items))
        if len(items) - (hi - 1) < min_root:
            hi = max(1, len(items) - min_root + 1)
        if hi < lo:
            break
        if forced:
            lo = min(2, hi)
        k = draw(st.integers(lo, hi))
        if use_disc and k < len(items) and (draw(st.booleans()) if disc_step == 0.5 else draw(st.floats(0, 1)) < disc_step):
            idxs = sorted(draw(st.lists(st.integers(0, len(items) - 1), min_size=k, max_size=k, unique=True)))
        else:
            start = draw(st.integers(0, len(items) - k))
            idxs = list(range(start, start + k))
        node = {"l": draw(labels), "e": edge(), "c": [items[i] for i in idxs]}
        if fields == "full":
            node["lem"] = "--"
            node["m"] = "--"
        first = mins[idxs[0]]
        for i in reversed(idxs):
            del items[i]
            del mins[i]
        pos_ins = 0
        while pos_ins < len(mins) and mins[pos_ins] < first:
            pos_ins += 1
        items.insert(pos_ins, node)
        mins.insert(pos_ins, first)
    root = {"l": root_label if isinstance(root_label, str) else draw(root_label), "e": "--", "c": items}
    if fields == "full":
        root["lem"] = "--"
        root["m"] = "--"
    if shuffle and draw(st.booleans()):
        stack = [root]
        while stack:
            cur = stack.pop()
            if len(cur["c"]) > 1:
                cur["c"] = list(draw(st.permutations(cur["c"])))
            stack.extend(ch for ch in cur["c"] if "c" in ch)
    return {"sid": draw(sid), "root": root}


def corpus(tree, min_size=1, max_size=4, distinct_sids=True, max_start=50):
    @st.composite
    def build(draw):
        trees = draw(st.lists(tree, min_size=min_size, max_size=max_size))
        if distinct_sids:
            # 0 is a sentence id like any other (`#BOS 0`, `<s id="s0">`)
            start = 0 if draw(st.integers(0, 5)) == 0 else draw(st.integers(1, max_start))
            sid = start
            for tr in trees:
                tr["sid"] = sid
                sid += draw(st.integers(1, 3))
        return trees
    return build()
