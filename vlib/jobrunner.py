"""Run a list of treetools command lines sequentially in ONE process (same script, runpy) and report, per job,
exit status, stdout and the contents of the files it wrote.  Used by checks/C18.py:
    python -B -m vlib.jobrunner spec.json result.json
spec: {"repo": path, "jobs": [{"argv": [...], "collect": [path, ...]}]}
No hypothesis import here: a fresh process must be cheap and contain nothing but the code under test."""
import base64
import contextlib
import io
import json
import os
import runpy
import sys


def main():
    spec_path, result_path = sys.argv[1], sys.argv[2]
    with open(spec_path) as stream:
        spec = json.load(stream)
    repo = spec["repo"]
    sys.path.insert(0, repo)
    script = os.path.join(repo, "treetools")
    results = []
    for job in spec["jobs"]:
        out, err = io.StringIO(), io.StringIO()
        code = 0
        sys.argv = [script] + job["argv"]
        with contextlib.redirect_stdout(out), contextlib.redirect_stderr(err):
            try:
                runpy.run_path(script, run_name="__main__")
            except SystemExit as exc:
                code = exc.code if isinstance(exc.code, int) else (0 if exc.code is None else 1)
            except BaseException as exc:  # what the interpreter would report as failure
                code = 1
                err.write("%s: %s" % (type(exc).__name__, exc))
        files = {}
        for path in job.get("collect", []):
            if os.path.exists(path):
                with open(path, "rb") as stream:
                    files[os.path.basename(path)] = base64.b64encode(stream.read()).decode("ascii")
        results.append({"code": code, "stdout": out.getvalue(), "stderr_tail": err.getvalue()[-300:], "files": files})
    with open(result_path, "w") as stream:
        json.dump({"results": results}, stream)


if __name__ == "__main__":
    main()
