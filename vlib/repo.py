"""Import the code under test from $VERIF_REPO (default /repo): always the current working tree."""
import os
import sys

REPO = os.environ.get("VERIF_REPO", "/repo")
if sys.path[0] != REPO:
    sys.path.insert(0, REPO)
sys.dont_write_bytecode = True

from trees import trees as T            # noqa: E402
from trees import treeinput, treeoutput, transform, transformconst, treeanalysis  # noqa: E402
from trees import grammar, grammaranalysis, grammarconst, grammarinput, grammaroutput  # noqa: E402
from trees import transitions, transitionoutput, misc  # noqa: E402

assert os.path.realpath(T.__file__).startswith(os.path.realpath(REPO)), (T.__file__, REPO)
TREETOOLS = os.path.join(REPO, "treetools")
