"""Shared runner: seeds, sharding over cores, violation bucketing, shrinking, replay,
known-finding matching, evidence writing, exit codes.

Contract (see DESIGN.md section 1):
  exit 0  property held on everything explored (open known findings are printed as KNOWN-FINDING lines)
  exit 1  + line "VIOLATION property=<id> replay=<path>" for every unlisted violation kind
  exit 2  harness error (never prints VIOLATION)
"""
import os
import sys
import json
import time
import hashlib
import re
import shutil
import tempfile
import traceback
import importlib
from collections import Counter

VERIF = os.path.dirname(os.path.dirname(os.path.abspath(__file__)))
REPO = os.environ.get("VERIF_REPO", "/repo")


# --------------------------------------------------------------------------- violations

class Violation(Exception):
    """Raised by an oracle. `kind` is a root-cause level bucket, `case` a JSON-able reproduction."""
    kind = "?"

    def __init__(self, detail="", case=None):
        Exception.__init__(self, detail)
        self.detail = str(detail)
        self.case = case


_VCLASSES = {}


def violation(kind, detail="", case=None):
    """Build a Violation whose *class* is specific to the kind, so that Hypothesis treats
    different kinds as different bugs and never slips from one to another while shrinking."""
    cls = _VCLASSES.get(kind)
    if cls is None:
        cls = type("Violation_" + re.sub(r"\W+", "_", kind), (Violation,), {"kind": kind})
        _VCLASSES[kind] = cls
    return cls(detail, case)


class HarnessError(Exception):
    pass


def slug(text):
    return re.sub(r"[^A-Za-z0-9_.-]+", "_", text).strip("_")[:120]


def jdefault(obj):
    if isinstance(obj, (set, frozenset)):
        return sorted(obj, key=repr)
    if isinstance(obj, bytes):
        return obj.decode("latin-1")
    if isinstance(obj, tuple):
        return list(obj)
    return repr(obj)


def jdump(obj, **kw):
    return json.dumps(obj, sort_keys=True, default=jdefault, ensure_ascii=False, **kw)


def digest(obj):
    return hashlib.sha1(jdump(obj).encode("utf-8", "surrogatepass")).digest()[:8]


def repo_frame(exc):
    """Innermost frame of the traceback that lies in the code under test: 'file.py:function'."""
    where = None
    for frame in traceback.extract_tb(exc.__traceback__):
        fn = frame.filename
        if fn.startswith(REPO.rstrip("/") + "/") and "/tests/" not in fn:
            where = "%s:%s" % (os.path.basename(fn), frame.name)
    return where


def call(kind_prefix, fn, *args, **kwargs):
    """Call repository code where the property demands a normal return: any exception is a violation
    bucketed by (exception type, innermost repository frame)."""
    allowed = kwargs.pop("_allowed", ())
    try:
        return fn(*args, **kwargs)
    except Violation:
        raise
    except allowed:
        raise
    except RecursionError as exc:
        raise violation("%s/exception:RecursionError" % kind_prefix, "RecursionError")
    except Exception as exc:  # noqa: converted, never swallowed
        where = repo_frame(exc) or "outside-repo"
        raise violation("%s/exception:%s@%s" % (kind_prefix, type(exc).__name__, where),
                        "%s: %s" % (type(exc).__name__, exc))


# --------------------------------------------------------------------------- known findings

class Known(object):
    def __init__(self, prop):
        self.prop = prop
        self.open = []
        self.fixed = []
        path = os.path.join(VERIF, "known_findings.json")
        if os.path.exists(path):
            with open(path) as stream:
                data = json.load(stream)
            self.open = [e for e in data.get("open", []) if e.get("property") == prop]
            self.fixed = [e for e in data.get("fixed", []) if ("property=%s " % prop) in e]

    def match(self, kind, detail):
        for entry in self.open:
            if entry["kind"] == kind and re.search(entry.get("detail_regex", ""), detail or ""):
                return entry
        return None


# --------------------------------------------------------------------------- per-unit context

class Ctx(object):
    """Statistics and violation handling for one unit running in one process."""

    def __init__(self, prop, unit, tier, seed, shard=0, deadline=None):
        self.prop = prop
        self.unit = unit
        self.tier = tier
        self.seed = seed
        self.shard = shard
        self.deadline = deadline
        self.known = Known(prop)
        self.evaluations = 0
        self.digests = set()
        self.distinct_extra = 0
        self.hist = Counter()
        self.samples = []
        self.known_hits = Counter()
        self.excluded = Counter()
        self.violations = {}
        self.seen = set()
        self.inconclusive = False
        self.exhaustive = None
        self.rejected = 0
        self.notes = []

    # -- bookkeeping used by the check modules
    def count(self, key=None, nontrivial=False, classes=(), by_construction=False):
        """Record one evaluated case. `key` identifies the case (digest for distinctness)."""
        self.evaluations += 1
        for cls in classes:
            self.hist[cls] += 1
        if nontrivial:
            if by_construction:
                self.distinct_extra += 1
            else:
                self.digests.add(digest(key))

    def sample(self, obj, cap=4):
        if len(self.samples) < cap:
            self.samples.append(json.loads(jdump(obj)))

    def time_up(self):
        return self.deadline is not None and time.time() > self.deadline

    # -- running one case against an oracle
    def run_case(self, fn, case):
        """Run oracle fn(case). Known-open and already-seen kinds are counted and swallowed so the
        search continues behind them; anything else propagates (Hypothesis shrinks it)."""
        try:
            fn(case)
            return True
        except Violation as vio:
            if vio.case is None:
                vio.case = case
            if self.known.match(vio.kind, vio.detail):
                self.known_hits[vio.kind] += 1
                self.excluded[vio.kind] += 1
                return False
            if vio.kind in self.seen:
                self.excluded[vio.kind] += 1
                return False
            raise

    def _quiet(self, fn, case):
        """Run fn without counting (used while minimising)."""
        saved = (self.evaluations, set(self.digests), self.distinct_extra, Counter(self.hist), list(self.samples))
        try:
            return fn(case)
        finally:
            self.evaluations, self.digests, self.distinct_extra, self.hist, self.samples = saved

    def record(self, vio):
        size = len(jdump(vio.case))
        old = self.violations.get(vio.kind)
        if old is None or size < old["size"]:
            self.violations[vio.kind] = {"kind": vio.kind, "detail": vio.detail[:2000], "case": vio.case,
                                         "size": size, "unit": self.unit}
        self.seen.add(vio.kind)

    def enumerate(self, cases, fn):
        """Exhaustive / explicit enumeration; first failure per kind is kept (enumerate small first)."""
        complete = True
        for case in cases:
            if self.time_up():
                self.inconclusive = True
                complete = False
                break
            try:
                self.run_case(fn, case)
            except Violation as vio:
                self.record(vio)
        return complete

    def minimize(self, vio, fn, smaller, budget=80):
        """Greedy reduction for expensive cases (subprocess runs): smaller(case) yields candidate cases; a
        candidate is kept when it fails with the same kind."""
        case = vio.case
        tries = 0
        progress = True
        while progress and tries < budget:
            progress = False
            for cand in smaller(case):
                tries += 1
                if tries > budget:
                    break
                try:
                    fn(cand)
                except Violation as again:
                    if again.kind == vio.kind:
                        case = cand
                        vio.detail = again.detail
                        progress = True
                        break
                except Exception:
                    continue
        vio.case = case
        return vio

    def hyp(self, strategy, fn, max_examples, shrink=True, rounds=6, smaller=None):
        """Hypothesis-driven search with collect-then-continue: after a shrunk failure of kind K the
        search is re-run with K excluded (counted), to enumerate further root causes."""
        from hypothesis import given, settings, seed, HealthCheck, Phase, Verbosity
        phases = [Phase.generate] + ([Phase.shrink] if shrink else [])
        if self.tier == "thorough":
            max_examples = int(max_examples * float(os.environ.get("VERIF_THOROUGH_SCALE", "3")))
        for rnd in range(rounds):
            last = {}

            def body(case):
                if self.time_up():
                    # time budget used up: inconclusive for the remaining cases, never a violation
                    self.inconclusive = True
                    return
                try:
                    self.run_case(fn, case)
                except Violation as vio:
                    last["v"] = vio
                    raise

            test = given(strategy)(body)
            test = settings(max_examples=max_examples, database=None, deadline=None, derandomize=False,
                            report_multiple_bugs=False, suppress_health_check=list(HealthCheck),
                            phases=phases, verbosity=Verbosity.quiet, print_blob=False)(test)
            test = seed((self.seed * 1000 + self.shard) * 16 + rnd)(test)
            try:
                test()
                return
            except Violation as vio:
                vio = last.get("v", vio)
                if smaller is not None:
                    known_before = set(self.seen)
                    vio = self.minimize(vio, lambda c: self._quiet(fn, c), smaller)
                self.record(vio)
            except BaseException as exc:
                # Hypothesis reports a failure that does not reproduce when the example is re-run (Flaky /
                # FlakyFailure, an exception group): the code under test depends on call history.  The violation
                # that was observed is real and is reported as such (unshrunk); anything else is a harness error.
                import hypothesis.errors as herr
                if isinstance(exc, getattr(herr, "Flaky", ())) or isinstance(exc, getattr(herr, "FlakyFailure", ())) \
                        or type(exc).__name__ in ("ExceptionGroup", "BaseExceptionGroup", "FlakyFailure", "Flaky", "FlakyReplay"):
                    if "v" in last:
                        vio = last["v"]
                        vio.detail = "[not reproducible in isolation: outcome depends on earlier calls in the same process] " + vio.detail
                        self.record(vio)
                        self.notes.append("flaky failure (history dependent) for kind %s" % vio.kind)
                        continue
                raise
        self.notes.append("more than %d distinct violation kinds; search stopped" % rounds)

    def export(self):
        return {"unit": self.unit, "shard": self.shard, "evaluations": self.evaluations,
                "digests": self.digests, "distinct_extra": self.distinct_extra, "hist": dict(self.hist),
                "samples": self.samples, "known_hits": dict(self.known_hits), "excluded": dict(self.excluded),
                "violations": self.violations, "inconclusive": self.inconclusive,
                "exhaustive": self.exhaustive, "notes": self.notes, "rejected": self.rejected}


# --------------------------------------------------------------------------- units

class Unit(object):
    """One generator + oracle pair.  gen(ctx) drives the search and calls ctx.hyp/ctx.enumerate with
    `check`; check(case) is the oracle on a JSON-able case and is what a replay file re-runs."""

    def __init__(self, name, gen, check, shards=(1, 4), rule="", budget=(None, None)):
        self.name = name
        self.gen = gen
        self.check = check
        self.shards = shards  # (quick, thorough)
        self.rule = rule


def _worker(args):
    prop, unit_name, tier, seed, shard, nshards, tmpbase, deadline = args
    os.environ["TMPDIR"] = tmpbase
    tempfile.tempdir = tmpbase
    try:
        module = importlib.import_module("checks." + prop)
        unit = dict((u.name, u) for u in module.UNITS)[unit_name]
        ctx = Ctx(prop, unit_name, tier, seed, shard, deadline)
        ctx.nshards = nshards
        ctx.tmp = tempfile.mkdtemp(prefix="u_", dir=tmpbase)
        started = time.time()
        unit.gen(ctx)
        out = ctx.export()
        out["wall_s"] = round(time.time() - started, 2)
        return out
    except Violation as vio:  # a unit must not leak violations
        return {"error": "leaked violation %s: %s" % (vio.kind, vio.detail), "unit": unit_name}
    except BaseException as exc:  # harness error
        return {"error": "".join(traceback.format_exception(type(exc), exc, exc.__traceback__)), "unit": unit_name}


def run_replay_file(module, path):
    with open(path) as stream:
        rep = json.load(stream)
    unit = dict((u.name, u) for u in module.UNITS).get(rep.get("unit"))
    if unit is None:
        raise HarnessError("replay %s names unknown unit %r" % (path, rep.get("unit")))
    try:
        unit.check(rep["case"])
    except Violation as vio:
        return vio
    return None


class _QuietPipe(object):
    """stdout that survives a reader which stops reading (`vcheck ... | head -1`): the verdict is the exit status"""
    def __init__(self, stream):
        self._stream, self._dead = stream, False

    def write(self, text):
        if not self._dead:
            try:
                return self._stream.write(text)
            except BrokenPipeError:
                self._dead = True
        return len(text)

    def flush(self):
        if not self._dead:
            try:
                self._stream.flush()
            except BrokenPipeError:
                self._dead = True

    def __getattr__(self, name):
        return getattr(self._stream, name)


def main(argv=None):
    import argparse
    sys.stdout = _QuietPipe(sys.stdout)
    parser = argparse.ArgumentParser(prog="vcheck")
    parser.add_argument("prop")
    parser.add_argument("--tier", default=os.environ.get("VERIF_TIER", "quick"), choices=["quick", "thorough"])
    parser.add_argument("--replay", default=None)
    parser.add_argument("--jobs", type=int, default=int(os.environ.get("VERIF_JOBS", "0")) or min(16, os.cpu_count() or 1))
    parser.add_argument("--unit", action="append", default=None, help="only these units (debugging)")
    parser.add_argument("--no-evidence", action="store_true")
    args = parser.parse_args(argv)
    prop = args.prop
    try:
        seed = int(os.environ.get("VERIF_SEED", "1"))
    except ValueError:
        seed = 1
    started = time.time()
    tmpbase = tempfile.mkdtemp(prefix="verif_%s_" % prop)
    try:
        code = _main(args, prop, seed, started, tmpbase)
    except HarnessError as exc:
        print("HARNESS-ERROR %s: %s" % (prop, exc))
        code = 2
    except Exception as exc:  # noqa
        traceback.print_exc()
        print("HARNESS-ERROR %s: %s" % (prop, exc))
        code = 2
    finally:
        shutil.rmtree(tmpbase, ignore_errors=True)
    sys.stdout.flush()
    return code


def _main(args, prop, seed, started, tmpbase):
    if not os.path.isdir(os.path.join(REPO, "trees")):
        raise HarnessError("no repository at %s" % REPO)
    os.environ["TMPDIR"] = tmpbase
    tempfile.tempdir = tmpbase
    module = importlib.import_module("checks." + prop)
    known = Known(prop)

    if args.replay:
        vio = run_replay_file(module, args.replay)
        if vio is None:
            print("replay %s: property %s holds on this case" % (args.replay, prop))
            return 0
        if known.match(vio.kind, vio.detail):
            print("KNOWN-FINDING: property=%s %s" % (prop, known.match(vio.kind, vio.detail)["what"]))
            return 0
        print("violation kind=%s detail=%s" % (vio.kind, vio.detail[:500]))
        print("VIOLATION property=%s replay=%s" % (prop, args.replay))
        return 1

    tier = args.tier
    budget = getattr(module, "BUDGET_S", (150, 3000))[0 if tier == "quick" else 1]
    deadline = started + budget
    violations = {}
    # 1. replay tier: committed shrunk failures are re-run first, in-process
    replay_dir = os.path.join(VERIF, "replays", prop)
    replays_run = 0
    if os.path.isdir(replay_dir):
        for name in sorted(os.listdir(replay_dir)):
            if not name.endswith(".json"):
                continue
            path = os.path.join(replay_dir, name)
            vio = run_replay_file(module, path)
            replays_run += 1
            if vio is not None and not known.match(vio.kind, vio.detail):
                violations.setdefault(vio.kind, {"kind": vio.kind, "detail": vio.detail, "path": path})
    # 2. generated search, sharded
    jobs = []
    for unit in module.UNITS:
        if args.unit and unit.name not in args.unit:
            continue
        nshards = unit.shards[0 if tier == "quick" else 1]
        for shard in range(nshards):
            jobs.append((prop, unit.name, tier, seed, shard, nshards, tmpbase, deadline))
    results = []
    if args.jobs <= 1 or len(jobs) <= 1:
        for job in jobs:
            results.append(_worker(job))
    else:
        import multiprocessing
        mpctx = multiprocessing.get_context("fork")
        with mpctx.Pool(min(args.jobs, len(jobs))) as pool:
            for res in pool.imap_unordered(_worker, jobs, chunksize=1):
                results.append(res)
    errors = [r for r in results if "error" in r]
    if errors:
        for err in errors:
            print("unit %s failed:\n%s" % (err["unit"], err["error"]))
        raise HarnessError("%d unit(s) raised a harness error" % len(errors))
    results.sort(key=lambda r: (r["unit"], r["shard"]))
    # 3. merge
    evaluations = replays_run
    digests = set()
    distinct_extra = 0
    hist = Counter()
    samples = []
    known_hits = Counter()
    excluded = Counter()
    per_unit = {}
    inconclusive = False
    notes = []
    exhaustive_units = []
    for res in results:
        evaluations += res["evaluations"]
        digests |= set((res["unit"], d) for d in res["digests"])
        distinct_extra += res["distinct_extra"]
        hist.update(res["hist"])
        known_hits.update(res["known_hits"])
        excluded.update(res["excluded"])
        inconclusive = inconclusive or res["inconclusive"]
        notes.extend(res["notes"])
        summary = per_unit.setdefault(res["unit"], {"evaluations": 0, "shards": 0, "wall_s": 0.0, "samples": 0})
        summary["evaluations"] += res["evaluations"]
        summary["shards"] += 1
        summary["wall_s"] = round(max(summary["wall_s"], res["wall_s"]), 2)
        if res["exhaustive"]:
            summary["exhaustive"] = res["exhaustive"]
            if res["exhaustive"] not in exhaustive_units:
                exhaustive_units.append(res["exhaustive"])
        if summary["samples"] < 2:
            for smp in res["samples"][:2 - summary["samples"]]:
                samples.append({"unit": res["unit"], "case": smp})
                summary["samples"] += 1
        for kind, vio in res["violations"].items():
            old = violations.get(kind)
            if old is None or ("size" in old and vio["size"] < old["size"]):
                violations[kind] = vio
    # 4. replay files for new violations
    new_dir = os.path.join(VERIF, "replays", prop, "new")
    for kind in sorted(violations):
        vio = violations[kind]
        if "path" in vio:
            continue
        os.makedirs(new_dir, exist_ok=True)
        path = os.path.join(new_dir, slug(kind) + ".json")
        with open(path, "w") as stream:
            stream.write(jdump({"property": prop, "unit": vio["unit"], "kind": kind, "detail": vio["detail"],
                                "case": vio["case"], "seed": seed, "tier": tier}, indent=1))
        vio["path"] = path
    wall = round(time.time() - started, 2)
    # 5. evidence
    rule = getattr(module, "RULE", "")
    coverage = {"evaluations": evaluations,
                "distinct_nontrivial": len(digests) + distinct_extra,
                "rule": rule,
                "samples": samples,
                "classes": dict(sorted(hist.items())),
                "units": per_unit,
                "replays_rerun": replays_run,
                "known_finding_hits": dict(known_hits),
                "excluded_by_construction": dict(excluded),
                "inconclusive_time_budget": inconclusive,
                "violation_kinds": sorted(violations)}
    if exhaustive_units:
        coverage["exhaustive_subspaces"] = exhaustive_units
        if getattr(module, "EXHAUSTIVE_WHOLE", False) and not inconclusive:
            coverage["exhaustive"] = True
    if notes:
        coverage["notes"] = notes
    evidence = {"property_id": prop, "tier": tier, "seed": seed, "level": "exploration", "coverage": coverage,
                "assumptions": list(getattr(module, "ASSUMPTIONS", [])), "wall_s": wall,
                "violations": len(violations)}
    if not args.no_evidence and not args.unit:
        os.makedirs(os.path.join(VERIF, "evidence"), exist_ok=True)
        with open(os.path.join(VERIF, "evidence", prop + ".json"), "w") as stream:
            stream.write(jdump(evidence, indent=1) + "\n")
    # 6. report
    print("%s tier=%s seed=%d evaluations=%d distinct_nontrivial=%d wall=%.1fs%s"
          % (prop, tier, seed, evaluations, len(digests) + distinct_extra, wall,
             " (time budget hit: inconclusive for the rest)" if inconclusive else ""))
    for unit_name in sorted(per_unit):
        print("  unit %-28s evaluations=%-8d shards=%d wall=%.1fs" % (unit_name, per_unit[unit_name]["evaluations"],
                                                                    per_unit[unit_name]["shards"], per_unit[unit_name]["wall_s"]))
    for entry in known.open:
        print("KNOWN-FINDING: property=%s %s (kind %s, reproduced %d times in this run)"
              % (prop, entry["what"], entry["kind"], known_hits.get(entry["kind"], 0)))
    for kind in sorted(violations):
        vio = violations[kind]
        print("violation kind=%s detail=%s" % (kind, vio["detail"][:600].replace("\n", " ")))
        print("VIOLATION property=%s replay=%s" % (prop, vio["path"]))
    return 1 if violations else 0
