"""Independent LCFRS helpers: reference extraction from the set model, rule composition (inlining of
binarization symbols), canonical forms, exhaustive enumeration of canonical rules."""
import itertools
from collections import Counter

from vlib import model as M


# --------------------------------------------------------------------------- reference extraction

def node_label(node):
    return node["p"] if M.is_tok(node) else node["l"]


def extract_rule(node):
    """(func, lin) of a constituent node from token sets only."""
    children = M.kids(node)
    func = tuple([node["l"]] + [node_label(c) for c in children])
    owner = {}
    for i, child in enumerate(children):
        for num in M.nums(child):
            owner[num] = i
    used = [0] * len(children)
    lin = []
    for block in M.blocks(M.nums(node)):
        arg = []
        for num in block:
            pos = owner[num]
            if not arg or arg[-1][0] != pos:
                arg.append((pos, used[pos]))
                used[pos] += 1
        lin.append(tuple(arg))
    return func, tuple(lin)


def extract_treebank(cases):
    """Reference: {func: {lin: {vert: count}}}, {word: Counter(tag)}"""
    grammar = {}
    lexicon = {}
    for case in cases:
        root = case["root"]
        parent = {}
        for node in M.preorder(root):
            for child in node.get("c", ()):
                parent[id(child)] = node
        for node in M.preorder(root):
            if M.is_tok(node):
                lexicon.setdefault(node["w"], Counter())[node["p"]] += 1
                continue
            func, lin = extract_rule(node)
            path = [node]
            while id(path[-1]) in parent:
                path.append(parent[id(path[-1])])
            vert = tuple("%s%d" % (n["l"], M.gapdeg(n) + 1) for n in path)
            slot = grammar.setdefault(func, {}).setdefault(lin, {})
            slot[vert] = slot.get(vert, 0) + 1
    return grammar, lexicon


def instantiate(lin, child_blocks):
    """Instantiate a linearization with the token blocks of the children -> list of token lists (one per lhs
    argument); also returns the list of (child, block) uses in order."""
    out = []
    uses = []
    for arg in lin:
        seq = []
        for pos, argpos in arg:
            seq.extend(child_blocks[pos][argpos])
            uses.append((pos, argpos))
        out.append(seq)
    return out, uses


# --------------------------------------------------------------------------- rule algebra

def fanouts(lin, rank):
    """[lhs fan-out, fan-out of rhs 0, ...]"""
    cnt = Counter(pos for arg in lin for (pos, _a) in arg)
    return [len(lin)] + [cnt.get(i, 0) for i in range(rank)]


def well_formed_rule(func, lin):
    """ordered, linear, non-deleting, non-erasing: every rhs element i has variables (i,0..f-1) each used once, in order."""
    rank = len(func) - 1
    seen = Counter()
    for arg in lin:
        if len(arg) == 0:
            return "empty lhs argument"
        for pos, argpos in arg:
            if not 0 <= pos < rank:
                return "variable of unknown rhs element %d" % pos
            if argpos != seen[pos]:
                return "variables of rhs element %d out of order" % pos
            seen[pos] += 1
    for i in range(rank):
        if seen[i] == 0:
            return "rhs element %d unused" % i
    return None


def inline_last(func, lin, sub_func, sub_lin):
    """Replace the LAST rhs element of (func, lin) by the right-hand side of its defining rule (sub_func, sub_lin):
    variable (last, a) becomes the sequence sub_lin[a] shifted behind the other rhs elements."""
    last = len(func) - 2
    assert func[-1] == sub_func[0]
    new_func = tuple(func[:-1]) + tuple(sub_func[1:])
    new_lin = []
    for arg in lin:
        new_arg = []
        for pos, argpos in arg:
            if pos == last:
                if argpos >= len(sub_lin):
                    raise ValueError("fan-out mismatch: symbol %s used with argument %d but defined with %d" % (func[-1], argpos, len(sub_lin)))
                for spos, sargpos in sub_lin[argpos]:
                    new_arg.append((last + spos, sargpos))
            else:
                new_arg.append((pos, argpos))
        new_lin.append(tuple(new_arg))
    used_args = set(argpos for arg in lin for (pos, argpos) in arg if pos == last)
    if used_args != set(range(len(sub_lin))):
        raise ValueError("fan-out mismatch: symbol %s used with %d arguments but defined with %d" % (func[-1], len(used_args), len(sub_lin)))
    return new_func, tuple(new_lin)


def canonical(func, lin):
    """Order rhs elements by the first occurrence of their variables; renumber; argument positions by order of use."""
    order = []
    for arg in lin:
        for pos, _a in arg:
            if pos not in order:
                order.append(pos)
    for i in range(len(func) - 1):
        if i not in order:
            order.append(i)
    remap = {old: new for new, old in enumerate(order)}
    new_func = tuple([func[0]] + [func[1 + old] for old in order])
    new_lin = tuple(tuple((remap[pos], argpos) for pos, argpos in arg) for arg in lin)
    return new_func, new_lin


# --------------------------------------------------------------------------- enumeration of canonical rules

def compositions(total, parts_max):
    """all ways to cut a sequence of length total into >=1 non-empty consecutive pieces"""
    for cuts in range(0, min(total, parts_max)):
        for where in itertools.combinations(range(1, total), cuts):
            yield (0,) + where + (total,)


def canonical_rules(max_rank, max_vars, min_rank=1):
    """All canonical ordered non-deleting non-erasing rules: yields lin for rank k (func labels are up to the caller).
    Sequence of rhs indices of length V (k <= V <= max_vars), first occurrences in order 0..k-1, cut into lhs
    arguments; inside an argument no two adjacent variables of the same rhs element."""
    for rank in range(min_rank, max_rank + 1):
        for nvars in range(rank, max_vars + 1):
            for seq in restricted_growth(nvars, rank):
                for bounds in compositions(nvars, nvars):
                    ok = True
                    for a, b in zip(bounds, bounds[1:]):
                        for i in range(a, b - 1):
                            if seq[i] == seq[i + 1]:
                                ok = False
                                break
                        if not ok:
                            break
                    if not ok:
                        continue
                    used = Counter()
                    lin = []
                    for a, b in zip(bounds, bounds[1:]):
                        arg = []
                        for i in range(a, b):
                            arg.append((seq[i], used[seq[i]]))
                            used[seq[i]] += 1
                        lin.append(tuple(arg))
                    yield rank, tuple(lin)


def restricted_growth(length, symbols):
    """sequences over 0..symbols-1 of the given length using all symbols with first occurrences in order"""
    def rec(prefix, top):
        if len(prefix) == length:
            if top == symbols:
                yield tuple(prefix)
            return
        if symbols - top > length - len(prefix):
            return
        for sym in range(min(top + 1, symbols)):
            prefix.append(sym)
            for out in rec(prefix, max(top, sym + 1)):
                yield out
            prefix.pop()
    return rec([], 0)
