"""Set-based tree model, independent of the code under test.

Model nodes are plain JSON-able dicts:
  token        {"w": word, "p": pos, "n": num, "e": edge|None, "lem": lemma|None, "m": morph|None, flags...}
  constituent  {"l": label, "e": edge|None, "c": [children...], flags...}   (optional "lem", "m")
  case         {"sid": int, "root": constituent}
flags: "h" head, "split", "bn" block_number, "hb" head_block

Observation of repository trees never uses repository traversal code: snapshot() walks
.children / .parent / .data directly and judges well-formedness on that raw view.
"""
from collections import Counter

FLAGMAP = {"h": "head", "split": "split", "bn": "block_number", "hb": "head_block"}


class Malformed(Exception):
    def __init__(self, reason, detail=""):
        Exception.__init__(self, "%s %s" % (reason, detail))
        self.reason = reason
        self.detail = detail


def is_tok(node):
    return "c" not in node


def toks(node):
    """Tokens below node, in token order."""
    out = []
    stack = [node]
    while stack:
        cur = stack.pop()
        if is_tok(cur):
            out.append(cur)
        else:
            stack.extend(cur["c"])
    return sorted(out, key=lambda t: t["n"])


def nums(node):
    return [t["n"] for t in toks(node)]


def first(node):
    return min(nums(node))


def kids(node):
    """Children in order of their leftmost token."""
    return sorted(node["c"], key=first)


def blocks(numbers):
    """Maximal runs of consecutive integers of a sorted list."""
    out = []
    for num in numbers:
        if out and out[-1][-1] + 1 == num:
            out[-1].append(num)
        else:
            out.append([num])
    return out


def gapdeg(node):
    if is_tok(node):
        return 0
    return len(blocks(nums(node))) - 1


def preorder(node):
    yield node
    if not is_tok(node):
        for child in kids(node):
            for sub in preorder(child):
                yield sub


def constituents(node):
    return [sub for sub in preorder(node) if not is_tok(sub)]


def tree_gapdeg(node):
    return max(gapdeg(sub) for sub in preorder(node))


def labels(node):
    return Counter(sub["l"] for sub in constituents(node))


def sentence(node, fields=("w", "p")):
    return [tuple(tok.get(f) for f in fields) for tok in toks(node)]


def canon(node, tok_fields=("w", "p", "lem", "m", "e"), con_fields=("l", "e")):
    """Canonical nested tuple (children by leftmost token) for equality of trees."""
    if is_tok(node):
        return ("T", node["n"]) + tuple(node.get(f) for f in tok_fields)
    return ("N",) + tuple(node.get(f) for f in con_fields) + (tuple(canon(ch, tok_fields, con_fields) for ch in kids(node)),)


def parent_map(node):
    """key of node -> key of parent; key = (label-or-word, tuple of token numbers) - unique for every
    node that is not part of a unary chain; unary chains get a depth counter."""
    out = {}

    def walk(cur, parent_key, depth_same):
        key = (cur.get("l", cur.get("w")), tuple(nums(cur)), is_tok(cur), depth_same)
        out[key] = parent_key
        if not is_tok(cur):
            for child in cur["c"]:
                same = tuple(nums(child)) == tuple(nums(cur))
                walk(child, key, depth_same + 1 if same else 0)
    walk(node, None, 0)
    return out


def size(node):
    return sum(1 for _ in preorder(node))


def copy(node):
    out = dict(node)
    if "c" in node:
        out["c"] = [copy(ch) for ch in node["c"]]
    return out


# --------------------------------------------------------------------------- repository side

def build(case, T, index=None):
    """Build a repository tree through the Tree API (never through a reader).
    index (dict) receives id(model node) -> repository node."""
    def rec(node):
        data = T.make_node_data()
        if is_tok(node):
            data["word"] = node["w"]
            data["label"] = node["p"]
            data["num"] = node["n"]
            data["edge"] = node.get("e")
            data["lemma"] = node.get("lem")
            data["morph"] = node.get("m")
        else:
            data["label"] = node["l"]
            data["edge"] = node.get("e")
            data["lemma"] = node.get("lem")
            data["morph"] = node.get("m")
        for short, name in FLAGMAP.items():
            if short in node:
                data[name] = node[short]
        tree = T.Tree(data)
        if index is not None:
            index[id(node)] = tree
        for child in node.get("c", ()):
            sub = rec(child)
            sub.parent = tree
            tree.children.append(sub)
        return tree
    root = rec(case["root"])
    root.data["sid"] = case.get("sid", 1)
    return root


def snapshot(tree, flags=False):
    """Raw walk of a repository tree -> (model node, raw node list).  Raises Malformed."""
    if tree is None:
        raise Malformed("none", "no tree returned")
    if getattr(tree, "parent", None) is not None:
        raise Malformed("returned-node-not-root", "returned node %r has a parent" % (tree.data.get("label"),))
    seen = {}

    def walk(node, parent):
        if id(node) in seen:
            raise Malformed("node-reachable-twice", "%r" % (node.data.get("label"),))
        seen[id(node)] = node
        if node.parent is not parent:
            raise Malformed("parent-pointer-inconsistent",
                            "node %r/%r" % (node.data.get("label"), node.data.get("word")))
        if len(node.children) == 0:
            if "num" not in node.data or node.data.get("word") is None or not isinstance(node.data.get("num"), int):
                raise Malformed("childless-constituent", "%r" % (node.data.get("label"),))
            out = {"w": node.data.get("word"), "p": node.data.get("label"), "n": node.data["num"],
                   "e": node.data.get("edge"), "lem": node.data.get("lemma"), "m": node.data.get("morph")}
        else:
            out = {"l": node.data.get("label"), "e": node.data.get("edge"),
                   "lem": node.data.get("lemma"), "m": node.data.get("morph")}
            out["c"] = [walk(child, node) for child in node.children]
        if flags:
            for short, name in FLAGMAP.items():
                if name in node.data:
                    out[short] = node.data[name]
        out["_id"] = id(node)
        return out
    model = walk(tree, None)
    numbers = sorted(nums(model)) if not is_tok(model) else [model["n"]]
    if numbers != list(range(1, len(numbers) + 1)):
        raise Malformed("token-numbers-not-1..n", str(numbers))
    return model, seen


def strip_ids(node):
    out = {k: v for k, v in node.items() if k not in ("_id", "c")}
    if "c" in node:
        out["c"] = [strip_ids(ch) for ch in node["c"]]
    return out
