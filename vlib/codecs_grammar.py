"""Independent decoders for the grammar file formats (PMCFG, RCG, LoPar) - no repository code."""
import re
from collections import Counter


class GrammarDecodeError(Exception):
    pass


def read_text(path, encoding):
    with open(path, "rb") as stream:
        data = stream.read()
    try:
        return data.decode(encoding)
    except UnicodeDecodeError as exc:
        raise GrammarDecodeError("%s is not %s: %s" % (path, encoding, exc))


def decode_lex(path, encoding):
    """word<TAB>tag count tag count ...  -> {word: {tag: count}}"""
    out = {}
    text = read_text(path, encoding)
    for line in text.split("\n"):
        if line == "":
            continue
        if "\t" not in line:
            raise GrammarDecodeError("lexicon line without tab: %r" % line)
        word, _, rest = line.partition("\t")
        fields = rest.split(" ")
        if len(fields) % 2 != 0 or not fields[0]:
            raise GrammarDecodeError("lexicon line %r" % line)
        if word in out:
            raise GrammarDecodeError("word %r listed twice" % word)
        out[word] = {}
        for tag, cnt in zip(fields[0::2], fields[1::2]):
            if not cnt.isdigit() or tag in out[word]:
                raise GrammarDecodeError("lexicon line %r" % line)
            out[word][tag] = int(cnt)
    return out


def decode_pmcfg(path, encoding):
    """-> Counter {(func, lin): count}"""
    text = read_text(path, encoding)
    rules, lins, counts, seqs = {}, {}, {}, {}
    for line in text.split("\n"):
        if line.strip() == "":
            continue
        fields = line.split()
        name = fields[0]
        if re.match(r"fun[0-9]+\Z", name):
            if len(fields) >= 4 and fields[1] == ":" and fields[3] == "<-":
                if name in rules:
                    raise GrammarDecodeError("%s defined twice" % name)
                rules[name] = tuple([fields[2]] + fields[4:])
            elif len(fields) >= 2 and fields[1] == "=":
                lins[name] = fields[2:]
            elif len(fields) == 2 and fields[1].isdigit():
                counts[name] = int(fields[1])
            else:
                raise GrammarDecodeError("unparsable line %r" % line)
        elif re.match(r"s[0-9]+\Z", name) and len(fields) >= 2 and fields[1] == "->":
            if name in seqs:
                raise GrammarDecodeError("%s defined twice" % name)
            seq = []
            for item in fields[2:]:
                match = re.match(r"([0-9]+):([0-9]+)\Z", item)
                if not match:
                    raise GrammarDecodeError("bad sequence element %r" % item)
                seq.append((int(match.group(1)), int(match.group(2))))
            seqs[name] = tuple(seq)
        else:
            raise GrammarDecodeError("unparsable line %r" % line)
    out = Counter()
    if set(rules) != set(lins) or set(rules) != set(counts):
        raise GrammarDecodeError("functions without linearization or count: %r" % sorted(set(rules) ^ set(lins) ^ set(counts))[:3])
    for name, func in rules.items():
        try:
            lin = tuple(seqs[s] for s in lins[name])
        except KeyError as exc:
            raise GrammarDecodeError("sequence %s undefined" % exc)
        out[(func, lin)] += counts[name]
    return out


PRED = re.compile(r"(.*?)([0-9]+)\((.*)\)\Z", re.S)


def split_pred(text):
    match = PRED.match(text)
    if not match:
        raise GrammarDecodeError("bad predicate %r" % text)
    label, arity, inner = match.group(1), int(match.group(2)), match.group(3)
    args = inner.split(",")
    if len(args) != arity:
        raise GrammarDecodeError("predicate %r: arity suffix %d but %d arguments" % (text, arity, len(args)))
    parsed = []
    for arg in args:
        if not re.match(r"(\[[0-9]+\])+\Z", arg):
            raise GrammarDecodeError("bad argument %r in %r" % (arg, text))
        parsed.append([int(x) for x in re.findall(r"\[([0-9]+)\]", arg)])
    return label, parsed


def decode_rcg(path, encoding):
    """C:count LHSk(args) --> RHS... -> Counter {(func, lin): count}"""
    text = read_text(path, encoding)
    out = Counter()
    for line in text.split("\n"):
        if line == "":
            continue
        fields = line.split(" ")
        if len(fields) < 4 or not re.match(r"C:[0-9]+\Z", fields[0]) or fields[2] != "-->":
            raise GrammarDecodeError("bad clause %r" % line)
        count = int(fields[0][2:])
        lhs_label, lhs_args = split_pred(fields[1])
        rhs = [split_pred(f) for f in fields[3:]]
        where = {}
        for i, (_label, args) in enumerate(rhs):
            for j, arg in enumerate(args):
                if len(arg) != 1 or arg[0] in where:
                    raise GrammarDecodeError("right-hand side arguments must be single fresh variables: %r" % line)
                where[arg[0]] = (i, j)
        lin = []
        used = set()
        for arg in lhs_args:
            seq = []
            for var in arg:
                if var not in where or var in used:
                    raise GrammarDecodeError("variable %d unbound or used twice: %r" % (var, line))
                used.add(var)
                seq.append(where[var])
            lin.append(tuple(seq))
        if used != set(where):
            raise GrammarDecodeError("right-hand side variable not used on the left: %r" % line)
        func = tuple([lhs_label] + [label for label, _ in rhs])
        out[(func, tuple(lin))] += count
    return out


def decode_lopar_gram(path, encoding):
    text = read_text(path, encoding)
    out = Counter()
    for line in text.split("\n"):
        if line == "":
            continue
        fields = line.split(" ")
        if len(fields) < 3 or not fields[0].isdigit():
            raise GrammarDecodeError("bad LoPar rule %r" % line)
        out[tuple(fields[1:])] += int(fields[0])
    return out


def decode_counts(path, encoding):
    """symbol count per line -> dict"""
    text = read_text(path, encoding)
    out = {}
    for line in text.split("\n"):
        if line == "":
            continue
        fields = line.split(" ")
        if len(fields) != 2 or not fields[1].isdigit() or fields[0] in out:
            raise GrammarDecodeError("bad count line %r" % line)
        out[fields[0]] = int(fields[1])
    return out
