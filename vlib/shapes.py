"""Exhaustive enumeration of tree shapes (hierarchies) over n tokens, with bounded unary decorations."""
import itertools
from vlib.strategies import CATS, POSTAGS, EDGES


def set_partitions(items):
    """All partitions of a list into non-empty blocks (blocks ordered by smallest element)."""
    if not items:
        yield []
        return
    first, rest = items[0], items[1:]
    for part in set_partitions(rest):
        for i in range(len(part)):
            yield part[:i] + [[first] + part[i]] + part[i + 1:]
        yield [[first]] + part


def hierarchies(tokens):
    """Series-reduced hierarchies over a token list: nested lists, ints are tokens.  1, 1, 4, 26, 236, ..."""
    if len(tokens) == 1:
        yield tokens[0]
        return
    for part in set_partitions(tokens):
        if len(part) < 2:
            continue
        for combo in itertools.product(*[list(hierarchies(block)) for block in part]):
            yield list(combo)


def count_nodes(shape):
    if isinstance(shape, int):
        return 1
    return 1 + sum(count_nodes(s) for s in shape)


def to_model(shape, unary_mask=0, rotate=0, words=None):
    """Shape -> model case.  unary_mask: bit i set = a unary node is inserted above the i-th node (preorder,
    the root excluded; for the root bit 0 inserts a single child below VROOT)."""
    counter = itertools.count()
    labels = itertools.cycle(CATS)

    def tok(num):
        word = words[num - 1] if words else "w%d" % num
        return {"w": word, "p": POSTAGS[num % len(POSTAGS)], "n": num, "e": EDGES[num % len(EDGES)], "lem": "--", "m": "--"}

    def rec(sub, is_root):
        idx = next(counter)
        if isinstance(sub, int):
            node = tok(sub)
        else:
            children = [rec(s, False) for s in sub]
            if rotate:
                r = rotate % len(children)
                children = children[r:] + children[:r]
            node = {"l": "VROOT" if is_root else next(labels), "e": "--", "c": children, "lem": "--", "m": "--"}
        if unary_mask >> idx & 1:
            if is_root:
                inner = dict(node)
                inner["l"] = next(labels)
                node = {"l": "VROOT", "e": "--", "c": [inner], "lem": "--", "m": "--"}
            else:
                node = {"l": next(labels), "e": EDGES[idx % len(EDGES)], "c": [node], "lem": "--", "m": "--"}
        return node
    if isinstance(shape, int):
        root = {"l": "VROOT", "e": "--", "c": [rec(shape, False)], "lem": "--", "m": "--"}
    else:
        root = rec(shape, True)
    return {"sid": 1, "root": root}


def all_models(max_tokens, unary="all", rotations=(0,)):
    """Yield (descriptor, case).  unary: 'none' | 'single' | 'all' (every subset of nodes gets a unary parent)."""
    for n in range(1, max_tokens + 1):
        for hidx, shape in enumerate(hierarchies(list(range(1, n + 1)))):
            nodes = count_nodes(shape)
            if unary == "none":
                masks = [0]
            elif unary == "single":
                masks = [0] + [1 << i for i in range(nodes)]
            else:
                masks = range(1 << nodes)
            for mask in masks:
                for rot in rotations:
                    yield {"n": n, "shape": shape, "mask": mask, "rot": rot}, to_model(shape, mask, rot)


# ----------------------------------------------------------------------------------------------- long sentences

def long_sentences():
    """Sentences with more than a hundred tokens (token numbers and export node numbers with three digits, differences
    of more than 100 between the leftmost tokens of nodes of different levels): flat clause with a late phrase, a deep
    right-branching spine, a discontinuous clause around a long middle field."""
    def tok(i):
        return {"w": "w%d" % i, "p": "NN", "n": i, "e": "--", "lem": "--", "m": "--"}

    def node(label, children):
        return {"l": label, "e": "--", "lem": "--", "m": "--", "c": children}
    out = []
    # flat S over 130 tokens whose last ten form an NP inside a PP (a level-2 node starting at token 121)
    n = 130
    late = node("PP", [tok(120), node("NP", [tok(i) for i in range(121, n + 1)])])
    out.append(("flat-clause-with-late-phrase", {"sid": 1, "root": node("VROOT", [node("S", [tok(i) for i in range(1, 120)] + [late])])}))
    # right-branching spine of depth 60 over 125 tokens
    cur = node("X", [tok(124), tok(125)])
    for i in range(122, 2, -2):
        cur = node("X", [tok(i), tok(i + 1), cur])
    out.append(("right-branching-spine", {"sid": 2, "root": node("VROOT", [tok(1), tok(2), tok(3), cur])}))
    # discontinuous VP {1..3, 260..262} around a middle field of constituents, 262 tokens
    middle = [node("NP", [tok(i), tok(i + 1)]) for i in range(4, 260, 2)]
    vp = node("VP", [tok(1), tok(2), tok(3), node("NP", [tok(260), tok(261)]), tok(262)])
    out.append(("discontinuous-around-long-middle-field", {"sid": 3, "root": node("VROOT", [node("S", [vp] + middle)])}))
    return out
