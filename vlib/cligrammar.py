"""`treetools grammar` as a second route to extraction and binarization: a generated treebank (or a grammar file) goes
through the real command line (runpy in this process, or a fresh interpreter), the written grammar and lexicon files are
decoded by the independent decoders of vlib.codecs_grammar, and the decoded grammar is handed to the oracle of the
property (reference extraction for C06, composition of binarized rules for C07, count conservation for C08)."""
import gzip
import os
import shutil
import tempfile

from hypothesis import strategies as st

from vlib import cli
from vlib import codecs_grammar as CG
from vlib import codecs_tree as CT
from vlib import model as M
from vlib.runner import violation

PY_ENC = {"utf-8": "utf-8", "latin-1": "latin-1", "utf-16": "utf-16"}
XML_ENC = {"utf-8": "utf-8", "latin-1": "iso-8859-1", "utf-16": "utf-16"}


def mode_argv(mode):
    argv = [mode["type"]]
    if mode.get("markov"):
        argv += ["--markov"]
        given = []
        # v:1 and h:2 are the documented defaults: leaving them out must not change anything
        if not (mode["v"] == 1 and mode.get("omit_defaults")):
            given.append("v:%d" % mode["v"])
        if not (mode["h"] == 2 and mode.get("omit_defaults")):
            given.append("h:%d" % mode["h"])
        if mode.get("nofanout"):
            given.append("nofanout")
        if not given:
            given = ["v:1"]
        argv += given
    return argv


def write_bank(path, fmt, bank, enc, gz):
    if fmt == "export":
        text = CT.encode_export(bank)
    elif fmt == "discobrackets":
        text = CT.encode_discobrackets(bank)
    else:
        text = CT.encode_tigerxml(bank, encoding=XML_ENC[enc])
    data = text.encode(PY_ENC[enc])
    if gz >= 2:
        cut = len(data) // 2
        data = gzip.compress(data[:cut]) + gzip.compress(data[cut:])
    elif gz == 1:
        data = gzip.compress(data)
    with open(path, "wb") as stream:
        stream.write(data)


def run(prefix, case, source=None):
    """case: {"bank", "mode", "src_fmt", "src_enc", "dest_fmt", "dest_enc", "gz", "inproc", "before"}
    source: (path-writer) alternative to a treebank: callable(path) writing a grammar file, with case["src_fmt"] = "rcg".
    Returns (Counter {(func, lin): count}, {word: {tag: count}})."""
    workdir = tempfile.mkdtemp(prefix="cligram_")
    old_tmp = tempfile.tempdir
    try:
        src_fmt, src_enc = case.get("src_fmt", "export"), case.get("src_enc", "utf-8")
        dest_fmt, dest_enc = case.get("dest_fmt", "pmcfg"), case.get("dest_enc", "utf-8")
        gz = int(case.get("gz") or 0)
        if source is not None:
            src = os.path.join(workdir, "input")
            source(src)
            src_arg = src
        else:
            src = os.path.join(workdir, "bank." + src_fmt + (".gz" if gz else ""))
            write_bank(src, src_fmt, case["bank"], src_enc, gz)
            src_arg = src
        dest = os.path.join(workdir, case.get("prefix", "out"))
        tempfile.tempdir = workdir          # the tool unzips into a temporary file which it never removes
        runner = cli.run_inproc if case.get("inproc", True) else cli.run_sub
        for before in case.get("before") or ():
            # an earlier command in the same process with other options: must leave no trace
            runner([a.format(src=src_arg, tmp=os.path.join(workdir, "other"), fmt=src_fmt, enc=src_enc) for a in before])
        argv = ["grammar", src_arg, dest] + mode_argv(case["mode"]) + ["--src-format", src_fmt, "--src-enc", src_enc,
                                                                      "--dest-format", dest_fmt, "--dest-enc", dest_enc]
        if src_fmt in ("export", "tigerxml", "discobrackets"):
            argv += ["--src-opts", "quiet"]
        res = runner(argv)
        if res.code != 0:
            raise violation(prefix + "/exit-status", "%r exits with %d: %s" % (argv[3:], res.code, res.err.strip().split("\n")[-1][:300]))
        try:
            rules = (CG.decode_pmcfg if dest_fmt == "pmcfg" else CG.decode_rcg)(dest + "." + dest_fmt, PY_ENC[dest_enc])
            lex = CG.decode_lex(dest + ".lex", PY_ENC[dest_enc])
        except FileNotFoundError as exc:
            raise violation(prefix + "/file-missing", "%s after %r" % (exc, argv[3:]))
        except CG.GrammarDecodeError as exc:
            raise violation(prefix + "/undecodable", "%s after %r" % (exc, argv[3:]))
        return rules, lex
    finally:
        tempfile.tempdir = old_tmp
        shutil.rmtree(workdir, ignore_errors=True)


BEFORE = [None, None, None,
          ["transform", "{src}", "{tmp}", "--src-format", "{fmt}", "--src-enc", "{enc}", "--src-opts", "gf_split", "replace_parens", "--dest-format", "terminals"],
          ["grammar", "{src}", "{tmp}", "leftright", "--markov", "v:2", "h:1", "nofanout", "--src-format", "{fmt}", "--src-enc", "{enc}", "--src-opts", "gf_split",
           "--dest-format", "pmcfg", "--dest-opts", "lex_in_grammar"],
          ["grammar", "{src}", "{tmp}", "optimal", "--src-format", "{fmt}", "--src-enc", "{enc}", "--dest-format", "rcg", "--dest-enc", "latin-1"]]

UMLAUT = {"c": "ä", "Haus": "Bücher"}


@st.composite
def settings(draw, bank_strategy, modes):
    """command-line surroundings of a grammar run: source format/encoding/compression, destination format/encoding,
    an earlier command in the same process"""
    bank = draw(bank_strategy)
    src_fmt = draw(st.sampled_from(["export", "export", "tigerxml", "discobrackets"]))
    src_enc = draw(st.sampled_from(["utf-8", "utf-8", "latin-1", "utf-16"]))
    dest_enc = draw(st.sampled_from(["utf-8", "utf-8", "latin-1", "utf-16"]))
    if draw(st.booleans()):
        bank = [M.copy_case(t) if hasattr(M, "copy_case") else {"sid": t["sid"], "root": M.copy(t["root"])} for t in bank]
        for tree in bank:
            for tok in M.toks(tree["root"]):
                tok["w"] = UMLAUT.get(tok["w"], tok["w"])
    for i, tree in enumerate(bank):          # one file: ids must be usable as such
        bank[i] = {"sid": i + 1, "root": tree["root"]}
    mode = dict(draw(st.sampled_from(modes)))
    if mode.get("markov") and draw(st.booleans()):
        mode["omit_defaults"] = True
    return {"bank": bank, "mode": mode, "src_fmt": src_fmt, "src_enc": src_enc, "dest_fmt": draw(st.sampled_from(["pmcfg", "rcg"])),
            "dest_enc": dest_enc, "gz": draw(st.sampled_from([0, 0, 0, 1, 2])) if src_fmt != "tigerxml" else 0, "inproc": True,
            "before": [b for b in [draw(st.sampled_from(BEFORE))] if b], "prefix": draw(st.sampled_from(["out", "g.rcg", "pmcfg"]))}


def smaller(case):
    out = [dict(case, bank=case["bank"][:i] + case["bank"][i + 1:]) for i in range(len(case["bank"])) if len(case["bank"]) > 1]
    for key, val in (("gz", 0), ("before", []), ("src_enc", "utf-8"), ("dest_enc", "utf-8"), ("src_fmt", "export")):
        if case.get(key) != val:
            out.append(dict(case, **{key: val}))
    return out


def classes(case, name="cli"):
    mode = case["mode"]
    out = ["%s:src=%s" % (name, case["src_fmt"]), "%s:dest=%s" % (name, case["dest_fmt"]), "%s:enc=%s>%s" % (name, case["src_enc"], case["dest_enc"]),
           "%s:type=%s%s" % (name, mode["type"], "+markov" if mode.get("markov") else "")]
    if case.get("gz"):
        out.append("%s:gzip-members=%d" % (name, case["gz"]))
    if case.get("before"):
        out.append("%s:after-another-command" % name)
    return out
