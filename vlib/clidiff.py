"""The command line as a second route to the library behaviour: `treetools transform` (same script, through runpy in
this process or in a fresh interpreter) on a generated export file must give what the transformation functions give
when they are applied directly to trees built from the same model.

Left side : model -> independent export encoder -> file -> `treetools transform --trans .. --params ..` -> export file
            -> independent export decoder -> canonical form
Right side: model -> trees.Tree objects (vlib.model.build) -> transformation functions with a parameter dictionary
            written by hand (not by misc.options_dict) -> raw snapshot -> canonical form, label decorations of the
            requested output options added by the reference in `decorate`

The right side is what the other units of each check compare with their reference models, so a difference here is a
defect of the command-line layer (option parsing, parameter passing, iteration over sentences/files, file handling).
"""
import contextlib
import io
import os
import shutil
import tempfile

from vlib import cli
from vlib import codecs_tree as CT
from vlib import model as M
from vlib.repo import T, transform
from vlib.runner import violation, call

TOK_FIELDS = ("w", "p", "m", "e")
CON_FIELDS = ("l", "m", "e")


class Outside(Exception):
    """the generated case is outside the documented domain; it is counted and not evaluated"""


class Rejected(Exception):
    """the transformation function itself refuses the parameters / the tree: the command line must not succeed either"""


def decorate(node, dest_opts):
    """label decorations of the output options (documented in treeoutput.OUTPUT_OPTIONS) on a flagged snapshot"""
    out = dict(node)
    label = out.get("p") if M.is_tok(out) else out.get("l")
    edge = out.get("e") or "--"
    if "gf" in dest_opts and not edge.startswith("-") and (not M.is_tok(out) or "gf_terminals" in dest_opts):
        label = "%s%s%s" % (label, dest_opts.get("gf_separator", "-"), edge)
    if "mark_heads_marking" in dest_opts and out.get("h"):
        label += "'"
    if "boyd_split_marking" in dest_opts and out.get("split"):
        label += "*"
    if "boyd_split_numbering" in dest_opts and out.get("split"):
        label += str(out.get("bn"))
    if M.is_tok(out):
        out["p"] = label
    else:
        out["l"] = label
        out["c"] = [decorate(child, dest_opts) for child in out["c"]]
    for field in ("m", "e"):
        if out.get(field) is None:
            out[field] = "--"
    return out


def below_root(node):
    """canonical form without the root's own label (the export format has no place for it)"""
    return tuple(M.canon(child, tok_fields=TOK_FIELDS, con_fields=CON_FIELDS) for child in M.kids(node))


def expected(prefix, trees, trans, params, dest_opts):
    out = []
    for case in trees:
        # the export format has no place for the label of the root: the reader calls it VROOT, so do we
        case = {"sid": case["sid"], "root": dict(case["root"], l="VROOT")}
        tree = M.build(case, T)
        for name in trans:
            with contextlib.redirect_stdout(io.StringIO()), contextlib.redirect_stderr(io.StringIO()):
                try:
                    tree = getattr(transform, name)(tree, **params)
                except Exception as exc:       # judged by the units that call the functions directly
                    raise Rejected("%s raises %s when called directly" % (name, type(exc).__name__))
            if tree is None:
                break
        if tree is None:
            continue
        try:
            snap, _ = M.snapshot(tree, flags=True)
        except M.Malformed as bad:
            raise violation("%s/api/malformed:%s" % (prefix, bad.reason), str(bad))
        if M.is_tok(snap):
            raise Outside("the whole sentence collapsed into one node (not a documented use of collapse_unary_chains)")
        deco = decorate(snap, dest_opts)
        out.append((case["sid"], below_root(deco), M.canon(deco, tok_fields=("w", "p"), con_fields=("l",))))
    return out


def argv_of(options):
    return ["%s:%s" % (k, v) if v is not True else k for k, v in options.items()]


def check(prefix, case):
    """case: {"trees": [models with sid], "trans": [...], "params": {...}, "dest_opts": {...}, "layout": "file"|"dir",
    "inproc": bool, "counting": int|None}"""
    trees, trans, params = case["trees"], case["trans"], case.get("params") or {}
    dest_opts = case.get("dest_opts") or {}
    workdir = tempfile.mkdtemp(prefix="clidiff_")
    try:
        params = dict(params)
        for key, value in list(params.items()):
            if isinstance(value, dict) and "file" in value:      # parameter files are written here
                path = os.path.join(workdir, "param_%s.txt" % key)
                with open(path, "w", encoding="utf-8") as stream:
                    stream.write(value["file"])
                params[key] = path
        rejected = None
        try:
            want = expected(prefix, trees, trans, params, dest_opts)
        except Outside:
            return -1
        except Rejected as exc:
            rejected, want = str(exc), []
        layout = case.get("layout", "file")
        if layout.startswith("split:") and layout != "split:rest" and len(want) < 2 and not rejected:
            layout = "file"     # a filter left fewer sentences than the absolute part sizes need (refused by design, see C17)
        case = dict(case, layout=layout)
        if case.get("layout") == "dir":
            # directory mode: every file of the directory is transformed to <file>.dest
            srcdir = os.path.join(workdir, "in")
            os.mkdir(srcdir)
            cut = max(1, len(trees) // 2)
            groups = [g for g in (trees[:cut], trees[cut:]) if g]
            names = []
            for i, group in enumerate(groups):
                name = os.path.join(srcdir, "part%d.export" % i)
                with open(name, "w", encoding="utf-8") as stream:
                    stream.write(CT.encode_export(group))
                names.append(name + ".dest")
            src, dest = srcdir, os.path.join(workdir, "unused")
        else:
            src, dest = os.path.join(workdir, "in.export"), os.path.join(workdir, "out.export")
            with open(src, "w", encoding="utf-8") as stream:
                stream.write(CT.encode_export(trees))
            names = [dest]
        dest_fmt = case.get("dest_fmt", "export")
        argv = ["transform", src, dest, "--src-format", "export", "--dest-format", dest_fmt]
        if trans:
            argv += ["--trans"] + list(trans)
        if params:
            argv += ["--params"] + argv_of(params)
        if dest_opts:
            argv += ["--dest-opts"] + argv_of(dest_opts)
        if case.get("counting"):
            argv += ["--counting", str(case["counting"])]
        if case.get("layout", "").startswith("split:"):
            argv += ["--split", case["layout"][6:]]
        res = (cli.run_inproc if case.get("inproc", True) else cli.run_sub)(argv)
        if rejected:
            if res.code == 0:
                raise violation(prefix + "/cli/accepts-what-the-function-rejects", "%r exits with 0 although %s" % (argv[6:], rejected))
            return -2
        if res.code != 0:
            raise violation(prefix + "/cli/exit-status", "%r exits with %d: %s" % (argv[3:], res.code, res.err[-300:]))
        if case.get("layout", "").startswith("split:"):
            # the parts, in order, hold all sentences (sizes are the business of C17)
            names = []
            while os.path.exists("%s.%d" % (dest, len(names))):
                names.append("%s.%d" % (dest, len(names)))
            if not names:
                raise violation(prefix + "/cli/output-missing", "no part file after %r" % (argv[3:],))
        got = []
        for name in names:
            try:
                with open(name, encoding="utf-8") as stream:
                    text = stream.read()
            except FileNotFoundError:
                raise violation(prefix + "/cli/output-missing", "no file %s after %r" % (os.path.basename(name), argv[3:]))
            try:
                if dest_fmt == "export":
                    got.extend((c["sid"], below_root(decorate(c["root"], {}))) for c in CT.decode_export(text, False))
                else:
                    got.extend((None, M.canon(root, tok_fields=("w", "p"), con_fields=("l",))) for root in CT.decode_brackets(text, disco=True))
            except CT.DecodeError as bad:
                raise violation(prefix + "/cli/output-undecodable", "%s (%r)" % (bad, argv[3:]))
        if dest_fmt != "export":
            # discobrackets: no sentence ids, but the label of the root is visible
            want = [(None, with_root) for (_sid, _below, with_root) in want]
        else:
            want = [(sid, below) for (sid, below, _with_root) in want]
        if case.get("layout") == "dir" and dest_fmt == "export":
            got.sort(key=lambda item: item[0])      # os.listdir order of the input files is not specified
            want = sorted(want, key=lambda item: item[0])
        if [sid for sid, _ in got] != [sid for sid, _ in want]:
            raise violation(prefix + "/cli/sentences", "command line wrote sentences %r, the functions give %r (%r)"
                            % ([s for s, _ in got], [s for s, _ in want], argv[6:]))
        for (sid, left), (_sid, right) in zip(got, want):
            if left != right:
                raise violation(prefix + "/cli/differs-from-functions", "sentence %s with %r:\n command line: %r\n functions   : %r"
                                % (sid, argv[6:], left, right))
    finally:
        shutil.rmtree(workdir, ignore_errors=True)
    return len(want)


# ----------------------------------------------------------------------------------------------- generated cases per property

import contextlib
import io

from hypothesis import strategies as st

from vlib import strategies as S
from vlib.runner import Unit

HEADS = [(["negra_mark_heads"], {}), (["mark_heads_by_rules"], {"mark_heads_preset": "negra"}), (["mark_heads_by_rules"], {"mark_heads_preset": "ptb"})]
FILTER = "filter"      # marker: parameters are drawn

# (transformations, parameters, output options); prerequisites hold on every tree by construction of the chains
RECIPES = {
    "C04": [(["root_attach"], {}, {}), (["add_topnode"], {}, {}), (["root_attach", "add_topnode"], {}, {}), (["add_topnode", "add_topnode"], {}, {}),
            (["collapse_unary_chains", "add_topnode", "collapse_unary_chains"], {}, {}),
            (["negra_mark_heads", "boyd_split", "raising"], {}, {}), (["root_attach", "negra_mark_heads", "boyd_split", "raising", "add_topnode"], {}, {}),
            (["punctuation_root", "negra_mark_heads", "boyd_split", "raising"], {}, {}),
            (["punctuation_verylow", "mark_heads_by_rules", "binarize"], {"mark_heads_preset": "negra"}, {}),
            (["negra_mark_heads", "binarize"], {"bare_bin_labels": True}, {}),
            (["punctuation_symetrify", "root_attach"], {"relc": "PRELS"}, {}), (["punctuation_symetrify"], {}, {}),
            (["collapse_unary_chains"], {}, {}), (["negra_mark_heads", "binarize", "collapse_unary_chains"], {}, {})],
    "C05": [(["negra_mark_heads", "boyd_split"], {}, {"boyd_split_marking": True}), (["negra_mark_heads", "boyd_split"], {}, {"boyd_split_numbering": True}),
            (["negra_mark_heads", "boyd_split"], {}, {"boyd_split_marking": True, "boyd_split_numbering": True, "mark_heads_marking": True}),
            (["negra_mark_heads", "boyd_split", "raising"], {}, {}), (["negra_mark_heads", "boyd_split", "raising"], {}, {"boyd_split_marking": True}),
            (["mark_heads_by_rules", "boyd_split", "raising"], {"mark_heads_preset": "negra"}, {"mark_heads_marking": True}),
            (["root_attach", "negra_mark_heads", "boyd_split", "raising"], {}, {})],
    "C12": [(["root_attach"], {}, {}), (["root_attach", "root_attach"], {}, {}), (["root_attach"], {}, {"gf": True}),
            (["punctuation_root", "root_attach"], {}, {})],
    "C13": [(["punctuation_verylow"], {}, {}), (["punctuation_root"], {}, {}), (["punctuation_symetrify"], {}, {}),
            (["punctuation_symetrify"], {"relc": "PRELS"}, {}), (["punctuation_symetrify"], {"relc": "NN"}, {}),
            (["punctuation_root", "punctuation_verylow"], {}, {}), (["punctuation_verylow", "punctuation_symetrify", "punctuation_verylow"], {}, {}),
            (["punctuation_root", "punctuation_symetrify", "punctuation_root"], {"relc": "PRELS"}, {}), (["punctuation_verylow", "punctuation_symetrify"], {"relc": "PRELS"}, {}),
            (["root_attach", "punctuation_symetrify"], {}, {})],
    "C14": [(["negra_mark_heads", "binarize"], {}, {}), (["negra_mark_heads", "binarize"], {"bare_bin_labels": True}, {}),
            (["mark_heads_by_rules", "binarize"], {"mark_heads_preset": "negra", "bare_bin_labels": True}, {"mark_heads_marking": True}),
            (["collapse_unary_chains"], {}, {}), (["negra_mark_heads", "binarize", "collapse_unary_chains"], {}, {}),
            (["add_topnode", "collapse_unary_chains"], {}, {})],
    "C15": [(["negra_mark_heads"], {}, {"mark_heads_marking": True}), (["mark_heads_by_rules"], {"mark_heads_preset": "negra"}, {"mark_heads_marking": True}),
            (["mark_heads_by_rules"], {"mark_heads_preset": "ptb"}, {"mark_heads_marking": True}),
            (["negra_mark_heads", "mark_heads_by_rules"], {"mark_heads_preset": "ptb"}, {"mark_heads_marking": True}),
            (["mark_heads_by_rules", "negra_mark_heads"], {"mark_heads_preset": "negra"}, {"mark_heads_marking": True, "gf": True}),
            (["root_attach", "mark_heads_by_rules"], {"mark_heads_preset": "negra"}, {"mark_heads_marking": True}),
            # rule sources the function refuses: the command line must refuse them, too
            (["mark_heads_by_rules"], {}, {"mark_heads_marking": True}), (["mark_heads_by_rules"], {"mark_heads_preset": "foo"}, {}),
            (["mark_heads_by_rules"], {"mark_heads_rulefile": True}, {"mark_heads_marking": True}),
            (["mark_heads_by_rules"], {"mark_heads_preset": True}, {})],
}

WORDS = st.one_of(st.sampled_from(S.PUNCT_WORDS), st.sampled_from([",", ".", '"', "(", ")"]), st.sampled_from(["a", "b", "der", "Haus"]),
                  st.sampled_from(["a", "b"]))


def negra_tree(max_tokens):
    return S.tree_model(max_tokens=max_tokens, disc=0.6, words=WORDS, max_arity=4, labels=st.sampled_from(["S", "NP", "VP", "PP", "AP"]),
                        pos=st.sampled_from(["NN", "VVFIN", "PRELS", "$,", "ART", "$("]), edges=st.sampled_from(["HD", "NK", "SB", "--"]))


def ptb_tree(max_tokens):
    return S.tree_model(max_tokens=max_tokens, disc=0.0, words=st.sampled_from(["a", "b", "did", ",", "."]), max_arity=5,
                        labels=st.sampled_from(["S", "NP", "VP", "SBAR", "PP", "ADJP"]), pos=st.sampled_from(["NN", "VBD", "IN", "DT", ",", "."]))


def dest_formats(trees):
    """export carries every field and the sentence id; discobrackets shows the label of the root (words with brackets
    are written differently there, which is the business of C02)"""
    import re
    plain = all(re.match(r"^[A-Za-z0-9äöüÄÖÜß,.:;!?\"'`*=-]+$", tok["w"]) and not re.search(r"[LR][RCS]B", tok["w"]) and "(" not in tok["p"]
                for tree in trees for tok in M.toks(tree["root"]))
    return st.sampled_from(["export", "export", "discobrackets"] if plain else ["export"])


def layouts(n):
    """one output file, directory mode, or --split (only specifications that are valid for every corpus size >= their minimum)"""
    out = ["file", "file", "file", "dir", "split:rest"]
    if n >= 2:
        out += ["split:1#_rest", "split:50%_50%"]
    return st.sampled_from(out)


@st.composite
def cases(draw, prop, max_tokens=8, max_trees=5, extra=None):
    recipes = RECIPES[prop] + list(extra or [])
    trans, params, dest_opts = draw(st.sampled_from(recipes))
    params, dest_opts = dict(params), dict(dest_opts)
    ptb = params.get("mark_heads_preset") == "ptb"
    trees = draw(st.lists(ptb_tree(max_tokens) if ptb else negra_tree(max_tokens), min_size=1, max_size=max_trees))
    for i, tree in enumerate(trees):
        tree["sid"] = 1 + i + (draw(st.integers(0, 3)) if i else 0) + (trees[i - 1]["sid"] if i else 0)
    if draw(st.integers(0, 2)) == 0:
        params["quiet"] = True
    if draw(st.integers(0, 5)) == 0 and "filter_by_length" not in trans:
        # a length filter anywhere in the chain: later sentences must be unaffected by a dropped one
        trans = list(trans)
        trans.insert(draw(st.integers(0, len(trans))), "filter_by_length")
        params.update(filteroperator=draw(st.sampled_from(["lt", "gt", "eq"])), filtervalue=draw(st.integers(0, 6)))
    return {"trees": trees, "trans": list(trans), "params": params, "dest_opts": dest_opts, "dest_fmt": draw(dest_formats(trees)),
            "layout": draw(layouts(len(trees))), "inproc": True,
            "counting": draw(st.sampled_from([None, None, 1, 2]))}


def unit(prop, quick=300, thorough=3000, extra=None, name="cli_vs_functions", strategy=None):
    prefix = prop + "/" + name

    def check_case(case):
        return check(prefix, case)

    def gen(ctx):
        def body(case):
            done = check_case(case)
            if done == -2:
                ctx.count(key=case, nontrivial=True, classes=[name + ":rejected-by-function-and-command-line"])
                return
            if done < 0:
                ctx.rejected += 1
                ctx.count(key=case, nontrivial=False, classes=[name + ":outside-documented-domain"])
                return
            classes = ["%s:%s" % (name, "+".join(case["trans"])), "%s:layout=%s" % (name, case["layout"])]
            if done < len(case["trees"]):
                classes.append(name + ":sentences-filtered")
            ctx.count(key=case, nontrivial=len(case["trees"]) >= 2, classes=classes)
            if len(case["trees"]) >= 2:
                ctx.sample({"trans": case["trans"], "params": case["params"], "dest_opts": case["dest_opts"], "layout": case["layout"],
                            "sentences": len(case["trees"])}, cap=1)
        ctx.hyp(strategy() if strategy else cases(prop, extra=extra), body, max_examples=quick if ctx.tier == "quick" else thorough, shrink=False,
                smaller=lambda c: [dict(c, trees=c["trees"][:i] + c["trees"][i + 1:]) for i in range(len(c["trees"])) if len(c["trees"]) > 1])
    return Unit(name, gen, check_case, shards=(2, 8))


# ----------------------------------------------------------------------------------------------- token-editing transformations (C11)

@st.composite
def cases_edits(draw, max_tokens=8):
    from checks import C11
    kind = draw(st.sampled_from(["traces", "traces", "insert", "substitute", "punct", "filter", "filter-twice", "traces+filter"]))
    params, trans = {}, []
    if kind.startswith("traces"):
        trees = draw(st.lists(C11.trace_tree(max_tokens), min_size=1, max_size=4))
        keep = draw(st.lists(st.sampled_from(C11.TRACE_WORDS), max_size=3, unique=True))
        if keep:
            params["keep"] = ",".join(keep)
        if draw(st.integers(0, 4)) == 0:
            params["keepall"] = True
        if draw(st.booleans()):
            params["keepcoindex"] = True
        slash = draw(st.sampled_from([None, None, None, True, "NP,WHNP"]))
        if slash:
            params["slash"] = slash
        trans = ["ptb_delete_traces"]
    else:
        words = C11.punct_words() if kind in ("punct", "filter", "filter-twice") else st.sampled_from(["a", "b", "c"])
        trees = draw(st.lists(C11.base_tree(max_tokens, words), min_size=1, max_size=4))
    for i, tree in enumerate(trees):
        tree["sid"] = (trees[i - 1]["sid"] if i else draw(st.integers(0, 3))) + 1 + (draw(st.integers(0, 2)) if i else 0)
    if kind in ("insert", "substitute"):
        lines = []
        for tree in trees:
            lines.extend(draw(C11.file_lines(tree["sid"], len(M.toks(tree["root"])), kind == "substitute")))
        seen, text = set(), []
        for sid, idx, word, pos in lines:        # double indices are refused by design: keep the first
            if (sid, idx) in seen:
                continue
            seen.add((sid, idx))
            text.append("%d\t%d\t%s%s" % (sid, idx, word, "\t" + pos if pos else ("\tPX" if kind == "insert" else "")))
        params["terminalfile"] = {"file": "\n".join(text) + ("\n" if text else "")}
        trans = [kind + "_terminals"]
    elif kind == "punct":
        trans = ["punctuation_delete"] + (["root_attach"] if draw(st.booleans()) else [])
    if "filter" in kind:
        params.update(filteroperator=draw(st.sampled_from(["lt", "gt", "eq"])), filtervalue=draw(st.integers(0, max_tokens)))
        trans = {"filter": ["filter_by_length"], "filter-twice": ["filter_by_length", "punctuation_delete", "filter_by_length"],
                 "traces+filter": ["ptb_delete_traces", "filter_by_length"]}[kind]
    if draw(st.booleans()):
        params["quiet"] = True
    return {"trees": trees, "trans": trans, "params": params, "dest_opts": {}, "layout": draw(layouts(len(trees))),
            "dest_fmt": "export" if kind.startswith("traces") else draw(dest_formats(trees)), "inproc": True, "counting": draw(st.sampled_from([None, None, 1]))}
