"""Drive the real command line: subprocess (`python /repo/treetools ...`) or the same main() in-process."""
import contextlib
import io
import os
import runpy
import subprocess
import sys

from vlib.repo import REPO, TREETOOLS

PY = os.environ.get("VERIF_PYTHON", "/venv/bin/python")


class Result(object):
    def __init__(self, code, out, err):
        self.code, self.out, self.err = code, out, err


def run_sub(args, cwd=None, hashseed="0", timeout=120, env_extra=None):
    env = dict(os.environ)
    env["PYTHONHASHSEED"] = str(hashseed)
    env["PYTHONDONTWRITEBYTECODE"] = "1"
    env.pop("PYTHONPATH", None)
    if env_extra:
        env.update(env_extra)
    proc = subprocess.run([PY, "-B", "-W", "ignore", TREETOOLS] + [str(a) for a in args], cwd=cwd, env=env,
                          capture_output=True, timeout=timeout)
    return Result(proc.returncode, proc.stdout.decode("utf-8", "replace"), proc.stderr.decode("utf-8", "replace"))


def run_inproc(args):
    """Same entry point, in this process.  Exit status: 0 normal/SystemExit(0|None), 1 on exception (as the
    interpreter would report), 2 for argparse errors."""
    out, err = io.StringIO(), io.StringIO()
    old_argv = sys.argv
    sys.argv = [TREETOOLS] + [str(a) for a in args]
    code = 0
    try:
        with contextlib.redirect_stdout(out), contextlib.redirect_stderr(err):
            try:
                runpy.run_path(TREETOOLS, run_name="__main__")
            except SystemExit as exc:
                code = exc.code if isinstance(exc.code, int) else (0 if exc.code is None else 1)
            except Exception as exc:  # what the interpreter would turn into exit status 1
                code = 1
                err.write("%s: %s\n" % (type(exc).__name__, exc))
                res = Result(code, out.getvalue(), err.getvalue())
                res.exc = exc
                return res
    finally:
        sys.argv = old_argv
    return Result(code, out.getvalue(), err.getvalue())
