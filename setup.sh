#!/bin/bash
# Offline setup after a fresh restore: make hypothesis importable for /venv/bin/python (into /verif/.deps if missing).
here="$(cd "$(dirname "$0")" && pwd)"
PY=${VERIF_PYTHON:-/venv/bin/python}
export PYTHONPATH="$here/.deps${PYTHONPATH:+:$PYTHONPATH}"
if ! "$PY" -c 'import hypothesis' 2>/dev/null; then
  "$PY" -m pip install --no-index --find-links /opt/veriftools/wheels --target "$here/.deps" hypothesis || exit 1
fi
if ! "$PY" -c 'import atheris' 2>/dev/null; then
  # optional: coverage-guided units of C01/C20 (they skip themselves, with a note in the evidence, when atheris is unavailable)
  "$PY" -m pip install --quiet --no-index --find-links /opt/veriftools/wheels --target "$here/.deps" atheris || echo "atheris not installed (optional)"
fi
"$PY" -c 'import hypothesis; print("hypothesis", hypothesis.__version__)'
