#!/venv/bin/python
"""Coverage-guided fuzz targets (atheris / libFuzzer) with the semantic oracle inside the target.

  python fuzz/fuzz_targets.py brackets|label [libFuzzer args: corpus dir, -runs=N, -seed=S, -max_len=L, ...]

brackets: bytes -> text -> file -> treeinput.brackets (with/without brackets_emptypos, first byte decides) compared with the
          hand-written recogniser of checks/C01.py (same trees, ValueError exactly for ill-formed input)
label:    bytes -> label string (no whitespace) + separator -> trees.parse_label / format_label compared with the regex reference of
          checks/C20.py
A disagreement raises, libFuzzer stores the input as crash-* in the artifact directory; checks/C01.py / C20.py turn it into a replay case.
Module state of the code under test is not kept between iterations (the readers are generators created per call; parse_label is pure).
"""
import os
import sys

VERIF = os.path.dirname(os.path.dirname(os.path.abspath(__file__)))
sys.path.insert(0, os.path.join(VERIF, ".deps"))
sys.path.insert(0, VERIF)
REPO = os.environ.get("VERIF_REPO", "/repo")
sys.path.insert(0, REPO)

import atheris  # noqa: E402

with atheris.instrument_imports(include=["trees"]):
    from trees import treeinput, trees as T  # noqa: E402,F401

import warnings  # noqa: E402
warnings.simplefilter("ignore")


def decode(data):
    return data.decode("utf-8", "ignore").replace("\x00", "")


def brackets_case(data):
    emptypos = bool(data[:1] and data[0] & 1)
    text = decode(data[1:])
    return {"text": text, "emptypos": emptypos}


def label_case(data):
    sep = "#" if (data[:1] and data[0] & 1) else "-"
    text = "".join(ch for ch in decode(data[1:]) if not ch.isspace())
    return {"s": text, "sep": sep}


def main():
    target = sys.argv[1]
    argv = [sys.argv[0]] + sys.argv[2:]
    if target == "brackets":
        from checks import C01
        from vlib.runner import Violation

        def one(data):
            try:
                C01.check_string(brackets_case(data))
            except Violation as vio:
                raise RuntimeError("VIOLATION %s: %s" % (vio.kind, vio.detail))
    elif target == "label":
        from checks import C20
        from vlib.runner import Violation

        def one(data):
            try:
                C20.check_string(label_case(data))
            except Violation as vio:
                raise RuntimeError("VIOLATION %s: %s" % (vio.kind, vio.detail))
    else:
        raise SystemExit("unknown target")
    atheris.Setup(argv, one)
    atheris.Fuzz()


if __name__ == "__main__":
    main()
