#!/venv/bin/python
"""Regenerate MANIFEST.json from the per-property table below (run after adding a check)."""
import json, os
VERIF = os.path.dirname(os.path.dirname(os.path.abspath(__file__)))

CLAIMED = {
 "C12": dict(tech="property-based testing (Hypothesis): generated trees vs. set-based reference implementation of the documented rule",
             text="Generated-input search: thousands of random trees with many unattached root children (interleaved, in gaps, at the edges) are run through transform.root_attach and the parent of every node is compared with an independent set-based reference of the documented rule. Finds any deviation from the rule on trees up to 10 (quick) / 14 (thorough) tokens with high probability; never proves absence. A quarter of the cases first apply a drawn history (root_attach itself, token insertion, token deletion) to the same tree object; the checked call is then judged against a raw snapshot taken at that moment.",
             note="Trusted: the reference in checks/C12.py, Hypothesis, the raw tree walk in vlib/model.py. Bounded to n<=14 tokens and <=5 detached nodes.",
             ref="DESIGN.md section 2, C12"),
}
CLAIMED["C20"] = dict(
    tech="exhaustive enumeration of all label strings up to length 6/7 over a 9-character alphabet (differential vs. regex reference parser, round trip, component deletion) + Hypothesis labels built from parts and get_label option subsets; coverage-guided fuzzing (atheris) of parse/format against the reference",
    text="Every string up to length 6 (quick; 7 thorough) over {A b 1 2 - = # ' *} is parsed with both separators and compared field by field with an independent regex parser of the documented label grammar; format(parse(s)) must give back s up to the two documented default literals; each of the five components is emptied in turn and must vanish alone. Longer labels are built from parts so the expected parse is known by construction; get_label is compared with category + requested decorations for every option subset. Exhaustive inside the stated bound, sampled beyond it.",
    note="Trusted: the regex reference parser/formatter in checks/C20.py (derived from parse_label's docstring). A lone '*' may or may not count as a trace; emptying the function under always_gf is not checked; numbering without marking accepts both label3 and label*3.",
    ref="DESIGN.md section 2, C20")
CLAIMED["C19"] = dict(
    tech="exhaustive enumeration of all tree shapes up to 5 tokens (with unary decorations and rotated child lists) + Hypothesis random trees; every node and node pair against a set-based tree model",
    text="All series-reduced hierarchies over <=4 tokens with every unary decoration and over 5 tokens with <=1 unary node, child lists stored in rotated order, plus random trees up to 12/16 tokens: children, terminals, terminal_blocks, siblings, dominance for every node, lca for every ordered pair, pre/postorder, levels and the export numbering are compared with a model that only knows token sets and the parent relation. Exhaustive within the shape bound, sampled beyond. Sibling queries are made first and bottom-up on the untouched tree; random trees are verified a second time after a raw structural edit of the same object (no stale memoisation).",
    note="Trusted: set model in vlib/model.py, shape enumeration in vlib/shapes.py (counts 1,1,4,26,236 checked). Traversal sibling order is not demanded (the statement only orders ancestors and descendants).",
    ref="DESIGN.md section 2, C19")
CLAIMED["C16"] = dict(
    tech="exhaustive shape enumeration + Hypothesis random trees/treebanks against the run-based definition; metamorphic three-way agreement (gap degree / bracket writer / context-freeness); CLI subprocess runs on files from an independent encoder",
    text="Gap degree, blocks and tree degree are compared with maximal runs of token positions on every node of every enumerated shape (<=5 tokens) and of random trees up to 14/18 tokens; the three notions of discontinuity must agree on each tree; disco_order must be a permutation in which every node is contiguous, equal to the left-to-right flattening in mode left and the identity on continuous trees; the three analysis tasks (API and real `treetools treeanalysis` subprocess) must print totals and per-degree histograms equal to the model's. A treebank-level unit checks the three-way agreement for one grammar extracted over many trees.",
    note="Trusted: set model, the export encoder in vlib/codecs_tree.py, regex parsing of the printed summary. Mode rightd is only constrained as far as the property states (permutation, continuity, identity on continuous trees).",
    ref="DESIGN.md section 2, C16")
CLAIMED["C15"] = dict(
    tech="Hypothesis trees with all edge-label assignments vs. the stated NeGra heuristic; exhaustive enumeration of both head-rule tables (parent x listed category x arity x position) + Hypothesis decorated/embedded variants; invalid presets",
    text="For the NeGra heuristic, random trees with several/one/no HD and NK edges are marked and every constituent is compared with 'leftmost HD, else rightmost NK, else leftmost'. For rule-based marking every (preset, parent category, listed category, arity 2..4, position) combination with the other children unlisted is enumerated exhaustively and must select the listed child; Hypothesis adds random case, decorated labels and embedding. In all runs: exactly one head child per constituent, all others False, root False, the ' mark exactly on heads, tree otherwise unchanged; invalid rule sources must raise ValueError. Rule-based marking is always preceded by a marking of the same tree with the other preset (no leakage between rule tables); the NeGra unit optionally applies a history of markings and token edits to the same tree first.",
    note="Trusted: rule tables read as data from transformconst; the claim checked for rules is only the stated one (a uniquely listed child is the head). Label stripping uses the reference parser of checks/C20.py.",
    ref="DESIGN.md section 2, C15")
CLAIMED["C05"] = dict(
    tech="Hypothesis discontinuity-biased trees with all head-assignment modes vs. a closed-form set-based reference of split+raise and the model's block tree; statement-level invariants (contiguity, sentence, label multiset, identity on continuous trees)",
    text="Random trees with gaps at several levels, discontinuous head children and unary nodes are head-marked (direct flags on any child, NeGra heuristic, rule preset; with/without root_attach), then boyd_split and raising are applied. After boyd_split the tree must equal the model's block tree (k same-labelled nodes per constituent with k blocks, in order, numbered 1..k, exactly one head block, * / number printed exactly on split nodes); after raising it must equal the closed-form reference and satisfy the stated invariants directly.",
    note="Trusted: reference in checks/C05.py (kept block = block of the yield containing the head child's kept block; new parent = lowest ancestor whose kept block contains the node), heads read back from the tree after marking. Bounded to 9 (quick) / 14 (thorough) tokens.",
    ref="DESIGN.md section 2, C05")
CLAIMED["C13"] = dict(
    tech="Hypothesis punctuation-rich trees; final-state post-conditions of the three re-attachments + frame condition on the set of nodes whose parent changed (node identity), well-formedness by raw walk",
    text="Random trees in which ~45% of the tokens are punctuation (consecutive, punctuation-only constituents, unary nodes over punctuation, gaps) are run through punctuation_verylow, punctuation_root and punctuation_symetrify (with and without relc). The stated post-condition of each is evaluated on the final tree, the set of nodes whose parent pointer changed must contain only the permitted punctuation tokens, and the result must be the same root, well formed, with the same sentence and node set. A quarter of the cases apply a drawn history of other re-attachments and token edits to the same tree object first.",
    note="Trusted: inventories of punctuation copied from the documented constants and cross-checked at start-up. punctuation_symetrify is only restricted, not obliged, by the statement, so a version that moves fewer tokens is not flagged.",
    ref="DESIGN.md section 2, C13")
CLAIMED["C14"] = dict(
    tech="Hypothesis head-marked trees (labels built from parts) with round-trip oracle: splice out @-nodes / uncollapse(collapse(t)) == t, plus normal-form predicates and rejection of unmarked wide nodes",
    text="Random head-marked trees of arity up to 6 (head first/last/middle, discontinuous nodes, decorated labels) are binarized with and without bare_bin_labels: at most two children everywhere, exactly (arity-2) added nodes per node, each labelled '@'+parent label without co-index (or '@'), and splicing them out must give back the original tree with all fields and head flags; a wide node without any head key must be rejected. Trees with inserted unary chains of length 1..4 at the root, in the middle and above tokens are collapsed (no unary node left, labels joined top-down with '+', equal to the model's collapse) and uncollapsed back to the original labels, words, POS and structure, returning the root.",
    note="Trusted: set model and the model-side collapse in checks/C14.py. One-token sentences are skipped for collapsing (documented caveat). Binarization direction is not part of the statement.",
    ref="DESIGN.md section 2, C14")
CLAIMED["C04"] = dict(
    tech="Hypothesis operation sequences (history generation, whole sequence shrinks as one value) with an invariant after every step: raw well-formedness walk, sentence preservation, model-computed label multiset",
    text="Sequences of up to 6 (quick) / 10 (thorough) transformations drawn from all thirteen structural operations (with relc, bare_bin_labels, both rule presets) are applied to punctuation-rich, partly discontinuous trees; an operation whose documented prerequisite fails on the actual tree is skipped and counted. After every applied step the returned node must be the parentless root of a well-formed tree (no node twice, consistent parent pointers, no childless constituent, tokens 1..n), words unchanged, POS unchanged up to the '+' concatenation of collapsing, sid kept, and the multiset of labels must be exactly what the documentation says for that operation, computed on the set model of the tree before the step.",
    note="Trusted: raw snapshot walk in vlib/model.py; prerequisite predicates in checks/C04.py (see ASSUMPTIONS in the evidence). Samples sequences, does not enumerate them.",
    ref="DESIGN.md section 2, C04")
CLAIMED["C06"] = dict(
    tech="Hypothesis treebank pools vs. an independent reference extractor on token sets; per-node instantiation of the extracted linearization with the children's blocks",
    text="Treebanks of 1..6 trees drawn with replacement from a small pool (so counts exceed 1, rules recur under different parents, siblings repeat labels) are extracted with grammar.extract; grammar and lexicon must equal the reference multiset computed from token sets, every node's rule instantiated with its children's blocks must reproduce the node's blocks using each child block once and in order, fan_out must equal block counts, per-label sums must equal node counts, and is_contextfree must hold exactly for continuous treebanks.",
    note="Trusted: reference extractor and instantiate() in vlib/lcfrs.py. Bounded to 8 (quick) / 12 (thorough) tokens per tree, 6 trees.",
    ref="DESIGN.md section 2, C06")
CLAIMED["C07"] = dict(
    tech="exhaustive enumeration of all canonical LCFRS rules of rank<=4, <=7 variables (23 425) x both reorderings with un-binarization by inlining; depth-first chain search for Markovized grammars over v,h in 0..3 x nofanout; Hypothesis treebank grammars",
    text="Every canonical ordered non-deleting non-erasing rule up to the bound is binarized (in grammars of 24 rules sharing labels) left-to-right and fan-out-optimised: at most two right-hand-side elements, every @-symbol defined exactly once with one fan-out, inlining all @-symbols gives back exactly the input rules (up to the canonical re-ordering for 'optimal'), rules of rank <= 2 kept. For Markovized binarization (v,h in 0..3, with/without nofanout) a depth-first search must find a chain of result rules that composes to the original linearization with matching fan-outs at every link. The same oracles run on grammars extracted from random treebanks. Exhaustive inside the stated bound.",
    note="Trusted: LCFRS composition/canonical form in vlib/lcfrs.py. Names of Markov symbols are not constrained (the statement does not define them).",
    ref="DESIGN.md section 2, C07")
CLAIMED["C08"] = dict(
    tech="Hypothesis treebank pools x all grammar modes; conservation laws computed from the set model (per-label sums, per-symbol flow conservation incl. @-symbols, chain counts)",
    text="For random treebanks in which one rule recurs in several trees and under different parents, every grammar type (treebank, leftright, optimal; deterministic and Markovized with v,h in 0..3, with/without nofanout) must satisfy: summed counts of the rules rewriting an original label = number of nodes with that label; for every symbol including binarization symbols, rewriting counts + tag count = count-weighted right-hand-side occurrences + root count; deterministic chains carry the total of their original rule; the lexicon is untouched.",
    note="Trusted: node/tag/root counts from the set model; extraction cross-checked against the reference extractor. The count fields of written grammar files are compared with the in-memory sums by the C09 check (same decoders).",
    ref="DESIGN.md section 2, C08")
CLAIMED["C10"] = dict(
    tech="Hypothesis head-marked (binary / binarized / n-ary) trees; three independent shift-reduce automata replay the emitted action strings over the sentence; reconstructed tree compared with the input (round trip); written files re-parsed; CLI subprocess",
    text="Random head-marked trees with unary nodes at the root, in the middle and above tokens, one-token sentences, continuous (top-down, in-order) or discontinuous with nested gaps (gap) are given to transitions.topdown / inorder / gap. Hand-written automata that see only the sentence and the action strings execute the sequence; every token must be consumed, one item must remain, and it must equal the input tree in labels, dominance, unary nodes, root and head sides of binary nodes. The returned sentence, the line written by transitionoutput.plain (words or POS) and the file written by `treetools transitions` on an export file from the independent encoder are checked the same way. Each extraction is repeated on the same tree (identical answer), optionally preceded by an in-order extraction before the tree is binarized, and the writer is exercised with several lines in utf-8, utf-16 and latin-1.",
    note="Trusted: the automata in checks/C10.py. Conventions pinned by the golden tests are parameters of the replayers (see ASSUMPTIONS in the evidence): a sequence is accepted if one documented reading replays it. Head flags of only children are not compared (UNARY carries no side).",
    ref="DESIGN.md section 2, C10")
CLAIMED["C11"] = dict(
    tech="Hypothesis trees with punctuation/trace tokens at every position + generated terminal files and parameter sets vs. a list-based reference of each documented edit with pruning on the set model",
    text="punctuation_delete, ptb_delete_traces (keep, keepall, keepcoindex, slash), insert_terminals, substitute_terminals (valid, zero, out-of-range, duplicate indices, foreign sentence ids, with/without quiet; fresh file name per case), trees.delete_terminal and filter_by_length are applied to random trees in which punctuation and traces occur first, last, as only child of unary chains and as sole content of constituents. The result must be the parentless root of a well-formed tree equal to the reference: untouched tokens keep word, POS and order, numbering 1..n, token-less constituents pruned, inserted tokens at the requested final positions under the root, out-of-range requests ignored, duplicates rejected with ValueError, deleted punctuation reported with original positions, no gap index and (unless keepcoindex) no co-index on any constituent label, kept traces swapped as documented. A second unit applies 2..5 edits one after the other to the same tree object, composing the references step by step.",
    note="Trusted: reference edits in checks/C11.py. insert_terminals inserts AT the index (pinned by the repository's test). With slash only token-level claims are checked. Labels and trace words are built from parts so expected labels are known by construction.",
    ref="DESIGN.md section 2, C11")
CLAIMED["C02"] = dict(
    tech="Hypothesis trees built through the Tree API with hostile alphabets, None fields and option subsets; output decoded by independent decoders (own export/bracket parsers, xml.etree) and compared with the model after a reference decoration function; format invariants checked in the decoder",
    text="Random trees (all shapes, gaps, XML-special / parenthesis / non-ASCII / astral characters, field lengths 7/8/15/16, lemma/morph/edge present or None, head and split flags) are written by all five writers under random subsets of the documented output options. Independent decoders must recover the same sentence id, tokens, order, decorated labels, edges and dominance; the export decoder enforces tokens-first, unique consecutive numbering from 500, resolving parents, children numbered below parents and matching #BOS/#EOS; TIGER-XML must parse; bracket formats must show the documented parenthesis names in tree and sentence part; the bracket writer must refuse exactly the discontinuous trees (or write nothing under brackets_skipdisco); terminals output must be exactly the sentence.",
    note="Trusted: decoders in vlib/codecs_tree.py, xml.etree. Not generated: whitespace/control characters, empty fields, words of the form #ddd/#BOS/#EOS, parentheses in constituent labels (formats cannot carry them). TIGER-XML is written without label-decoration options.",
    ref="DESIGN.md section 2, C02")
CLAIMED["C01"] = dict(
    tech="Hypothesis corpora encoded by independent encoders with generated layouts and reader options, compared with model + expectation function; exhaustive enumeration of all bracket strings up to length 7/9 against a hand-written recogniser; single-edit mutations of well-formed bracket files; coverage-guided fuzzing (atheris) of the bracket reader with the recogniser as oracle inside the target",
    text="Corpora of 1..4 (thorough 8) sentences over all tree shapes and hostile alphabets are written by independent encoders in export v3/v4 (headers, comments, secondary-edge columns, tabs or blanks, shuffled constituent lines, arbitrary numbering), brackets (arbitrary whitespace at every optional position, empty or labelled root, several sentences per line, material outside groups, empty POS), discobrackets and TIGER-XML (permuted attributes / nt / edge order, arbitrary ids, secedge noise, id styles, two encodings), plain or gzip, and read back with drawn reader options; the reader must yield exactly one well-formed tree per sentence, in order, equal to the model after an independently written expectation function of the options (gf_split, gf_separator, replace_parens, continuous, brackets_firstid, brackets_emptypos), and print nothing under quiet. Every string over {( ) blank a b} up to length 7 (thorough 9), with and without brackets_emptypos, is given to the bracket reader and to a hand-written recogniser: same trees, ValueError exactly for ill-formed input (including a group still open at end of input). Four files of 130-250 kB, random strings up to 40 pieces and an atheris campaign extend the same oracles; consecutive cases rewrite the same file name.",
    note="Trusted: encoders in vlib/codecs_tree.py, the recogniser and expectation functions in checks/C01.py. Not generated: values the formats cannot carry (see ASSUMPTIONS in the evidence). disco_reordered is only checked structurally; gf_split with a non-default separator only on labels without co-index.",
    ref="DESIGN.md section 2, C01")
CLAIMED["C09"] = dict(
    tech="Hypothesis treebank grammars (raw and binarized in every mode) written in PMCFG/RCG/LoPar and decoded by independent decoders (round trip); differential with the repository's own RCG reader; CLI subprocess incl. grammar files as input",
    text="Grammars and lexicons from random treebanks (counts > 1, fan-out > 1, shared linearization sequences, ambiguous / capitalised / non-ASCII words), raw or binarized left-to-right / optimal, deterministic or Markovized, are written by grammaroutput.pmcfg / rcg / lopar with and without lex_in_grammar in utf-8 and latin-1. Independent decoders must recover exactly the rules, linearizations, summed counts and word/tag counts; RCG files are additionally re-read with grammarinput.rcg; LoPar auxiliary files must list exactly the start symbols with their counts and the tag counts split by capitalisation; a non-context-free grammar must be refused without leaving files. The same through `treetools grammar` on export files, and with a written RCG grammar as the command's input. Treebanks include flat constituents with 11..13 children (clauses with more than ten variables), comb-shaped trees with fan-outs >= 10 and counts with two and three digits.",
    note="Trusted: decoders in vlib/codecs_grammar.py; the in-memory grammar comes from the repository's extract/binarize (C06-C08). Fan-outs >= 10 (two-digit arity suffixes) are out of bounds.",
    ref="DESIGN.md section 2, C09")
CLAIMED["C17"] = dict(
    tech="exhaustive enumeration of split specifications x treebank sizes against integer reference arithmetic (+ malformed list); Hypothesis corpora through `treetools transform --split` with independent decoding of every part and comparison with the unsplit conversion",
    text="Every specification of up to 3 parts (thorough 4) over {N#, N%, rest} with N from boundary sets, for treebank sizes 0..12 and 50/100/200/300 (thorough 0..60), and every single percentage 0..100 for sizes 0..300, is given to parse_split_specification and compared with integer arithmetic (absolute sizes exact, percentages rounded down, remainder to rest or the first largest part, sum = size, over-demand and malformed specifications rejected). Through the real command line, corpora of 0..7 sentences are split into every output format with and without filter_by_length: exactly k part files, each a complete file that the independent decoder and the repository's own reader accept, with the reference sizes, and their concatenation equals the decoded unsplit conversion.",
    note="Trusted: reference arithmetic in checks/C17.py, decoders in vlib/codecs_tree.py. Rejection may use any exception; negative numbers are not generated.",
    ref="DESIGN.md section 2, C17")
CLAIMED["C03"] = dict(
    tech="Hypothesis corpora x all 4x5 format pairs x encodings/gzip/directory mode through the real `treetools transform` entry point (subprocess and in-process runpy); round-trip A->B->A and differential between independent decoders and the repository's own readers",
    text="Corpora written by the independent encoders in each source format (utf-8, latin-1, utf-16; plain or .gz; file or directory) are converted by the real command into each destination format with drawn encodings and inverse option pairs; the exit status must be 0 whenever the destination can represent the trees, the destination decoded by the independent decoders must equal the source model projected on what both formats carry (sentence ids, order, words, POS, lemma, morphology, edges, labels, dominance), the repository's own reader must read the destination identically, and converting back must give the projection of the original. A few corpora of 60 sentences guard against size-dependent truncation.",
    note="Trusted: encoders/decoders in vlib/codecs_tree.py, model-level read/write projection in checks/C03.py. Quick tier: ~12% of the conversions as subprocesses, the rest through runpy in-process (same script, same main); thorough: all subprocesses.",
    ref="DESIGN.md section 2, C03")
CLAIMED["C18"] = dict(
    tech="Hypothesis-generated histories of real command lines (job lists): every job run alone in a fresh interpreter vs. all jobs run one after the other in one interpreter in the drawn order and a permutation; metamorphic concatenation relation output(A+B) = output(A) ++ output(B) / sum; repetition under different PYTHONHASHSEED values",
    text="Job lists of 2..6 real `treetools` command lines (conversions with sentence-local transformations and per-job terminal files under different names, grammar extraction in all types and formats, analysis tasks, transition extraction; different source formats and reader options) are executed by a minimal runner that imports nothing but the code under test: once per job in a fresh process, and as a whole history in one process in two orders. Every job's files and stdout must be the same in all runs. For corpora A and B the output for A+B must be the concatenation (conversions, transitions) or the sum (treebank and Markov grammars, lexicons, statistics) of the separate outputs. The same command under PYTHONHASHSEED 0, 1 and 123 must produce the same files (set-like files as line multisets). In-process units add many cheap cases: two or three reader->transformation->writer/extraction pipelines executed sequentially and interleaved tree by tree along a drawn schedule must give the same per-pipeline outputs, and extraction, Markovized binarization, writers and statistics over A+B must be the sum / concatenation of the parts.",
    note="Trusted: vlib/jobrunner.py (runpy on the unmodified script), decoders for the additive comparisons. Interleavings are sampled (histories of <= 6+2 jobs, one extra permutation), not enumerated; deterministic binarization is excluded from the additivity clause (symbols are numbered).",
    ref="DESIGN.md section 2, C18")
# second route added in the later rounds: the same oracles behind the real command line
CLI_ROUTE = {
 "C01": ("; the readers driven through `treetools transform --src-opts ...` in-process (files incl. multi-member gzip, option values such as 0)",
         " A further unit reaches every reader through the real command line (runpy on the unmodified script): source files in all formats, plain or gzip with one or two members, reader options as --src-opts; the decoded destination must be the projection of the source model."),
 "C02": ("; the writers driven through `treetools transform --dest-opts ...` in-process, decoded independently",
         " A further unit reaches every writer through the real command line from an export source, with output options (also options of other writers, which must be inert) and destination encodings."),
}
for _pid in ("C04", "C05", "C11", "C12", "C13", "C14", "C15"):
    CLI_ROUTE[_pid] = ("; differential: `treetools transform --trans ... --params ...` in-process (one file, directory mode, --split) vs. the same functions called directly",
                       " A further unit (cli_vs_functions) writes generated corpora with an independent export encoder, runs the real command line on them with prerequisite-respecting pipelines (repeated transformations, length filters, parameters, output options; one file, directory mode or --split), decodes the result independently and compares it sentence by sentence with the transformation functions applied directly; what the functions reject the command line must reject.")
for _pid in ("C06", "C07", "C08"):
    CLI_ROUTE[_pid] = ("; the same oracle on grammar files written by `treetools grammar` in-process (three source formats, encodings, gzip, earlier commands in the same process) and decoded independently",
                       " A further unit runs `treetools grammar` itself on generated treebanks (export, TIGER-XML, discobrackets; utf-8/latin-1/utf-16; plain or gzip with one or two members; optionally after another command with other options in the same process), decodes the written PMCFG/RCG and lexicon files with independent decoders and applies the same oracle to the decoded grammar.")
for _pid in ("C09", "C10", "C16"):
    CLI_ROUTE[_pid] = ("; command-line cases also in-process (runpy), every case after earlier ones with other options", " The command-line unit exists in two forms: a fresh interpreter per case, and many more cases through runpy in one process, so that options of earlier commands would show if they leaked.")
CLAIMED["C12"]["tech"] += "; exhaustive enumeration of all set partitions of up to 9/11 tokens into flat root children"
CLAIMED["C12"]["text"] += " An exhaustive unit deals the tokens 1..n (n <= 9 quick, 11 thorough) out to flat root children in every possible way (all set partitions: every interleaving and crossing), singletons as bare tokens and as unary nodes, and compares each result with the reference; a further random unit scatters tokens over 2-6 root children with inner constituents."
for _pid, _text in {
    "C02": " Sentences of 125-262 tokens (three-digit token and node numbers) go through every writer.",
    "C19": " Sentences of 125-262 tokens (flat with a late phrase, a spine of depth 60, discontinuous around 128 constituents) go through every navigation function and the export numbering.",
    "C12": " Sentences of 260-300 tokens with unattached root children beyond position 256 are included.",
    "C17": " The command-line unit also splits into 11, 12 and 13 parts (two-digit part numbers).",
    "C08": " Fixed treebanks add the constellations random generation rarely produces: one rule under contexts that coincide only after stripping fan-outs, in every order, and treebanks that are already binarized (labels @1X, @X).",
}.items():
    CLAIMED[_pid]["text"] += _text
for _pid, (tech, text) in CLI_ROUTE.items():
    CLAIMED[_pid]["tech"] += tech
    CLAIMED[_pid]["text"] += text

PENDING_REASON = "check not built yet in this round (planned, see DESIGN.md section 6); not claimed until it is quiet on the unchanged tree"


def main():
    props = [json.loads(l) for l in open(os.path.join(VERIF, "properties.jsonl"))]
    checks = []
    na = []
    for p in props:
        pid = p["id"]
        if pid in CLAIMED:
            c = CLAIMED[pid]
            checks.append({
                "property_id": pid,
                "quick_cmd": "./vcheck %s --tier quick" % pid,
                "thorough_cmd": "./vcheck %s --tier thorough" % pid,
                "evidence_file": "evidence/%s.json" % pid,
                "replay_cmd_template": "./vcheck %s --replay {path}" % pid,
                "engine": "vcheck",
                "level_claimed": {"category": "exploration", "text": c["text"], "design_ref": c["ref"]},
                "level_note": c["note"],
                "technique": c["tech"]})
        else:
            na.append({"property_id": pid, "reason": PENDING_REASON})
    manifest = {
        "version": 1,
        "setup_cmd": "./setup.sh",
        "hooks": {"guard": "TREETOOLS_VERIF", "enable": "no source hooks are needed: every observation point is a return value, a written file, stdout or an exception; checks import /repo's working tree in a fresh interpreter (python -B)",
                  "baseline_off_cmd": "cd /repo && /venv/bin/python -m pytest -ra -q -p no:cacheprovider --timeout=900",
                  "source_commits": [], "add_only": True},
        "engines": [{"name": "vcheck", "path": "vcheck", "serves_properties": sorted(CLAIMED),
                     "kind_free_text": "Python runner (vlib/runner.py): Hypothesis strategies / stateful sequences, exhaustive enumeration of small finite domains, sharded over 16 cores; independent reference models and codecs in vlib/"}],
        "checks": checks,
        "notes": "All checks: property-based testing / fuzzing against explicit oracles. Known findings: known_findings.json. Sensitivity catalogue: tools/mutants + tools/sens.py; seeded changes from independent sub-agents: seeded/.",
        "not_applicable": na}
    with open(os.path.join(VERIF, "MANIFEST.json"), "w") as stream:
        json.dump(manifest, stream, indent=1)
        stream.write("\n")
    try:
        import jsonschema
        jsonschema.validate(manifest, json.load(open("/root/.vp/MANIFEST.schema.json")))
        print("manifest valid:", len(checks), "claimed,", len(na), "unclaimed")
    except ImportError:
        print("jsonschema not importable here; manifest written")

main()
