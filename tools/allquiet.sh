#!/bin/bash
# Run every check's quick tier at several seeds on the unchanged tree; report anything that is not exit 0 or that prints
# a VIOLATION / HARNESS line (the whole output is searched, not only the first line).
cd "$(dirname "$0")/.."
seeds="${1:-2 3}"
for seed in $seeds; do
  for id in C01 C02 C03 C04 C05 C06 C07 C08 C09 C10 C11 C12 C13 C14 C15 C16 C17 C18 C19 C20; do
    start=$(date +%s)
    out=$(VERIF_SEED=$seed ./vcheck $id --tier quick --no-evidence 2>&1); code=$?
    end=$(date +%s)
    bad=$(echo "$out" | grep -c -E '^(VIOLATION|HARNESS|KNOWN-FINDING)|Traceback')
    echo "seed=$seed $id exit=$code $((end-start))s alarms=$bad"
    if [ $code -ne 0 ] || [ $bad -ne 0 ]; then echo "$out" | grep -v '^$' | tail -15; fi
  done
done
