#!/venv/bin/python
"""Confirm a sub-agent's seeded change and run the checks against it.

usage: tools/seed_eval.py <ID> [--src /tmp/seed_out/<ID>] [--props C04,C05] [--tier quick]
For every X in the source dir with X_patch.diff / X_demo.py / X_meta.json:
  1. scratch worktree of /repo HEAD (under /tmp, removed afterwards); apply the patch alone
  2. repository test-suite must pass; demo must exit 1; on the clean worktree the demo must exit 0
  3. run ./vcheck <prop> --tier quick against the patched worktree (VERIF_REPO) for the property (and extra --props)
  4. store /verif/seeded/<ID>-<X>/{patch.diff, demo.py, meta.json}
"""
import json, os, shutil, subprocess, sys, time

VERIF = os.path.dirname(os.path.dirname(os.path.abspath(__file__)))


def sh(cmd, **kw):
    return subprocess.run(cmd, capture_output=True, text=True, **kw)


def main():
    args = sys.argv[1:]
    prop = args[0]
    src = "/tmp/seed_out/%s" % prop
    props = [prop]
    tier = "quick"
    if "--src" in args:
        src = args[args.index("--src") + 1]
    if "--props" in args:
        props = args[args.index("--props") + 1].split(",")
    if "--tier" in args:
        tier = args[args.index("--tier") + 1]
    names = sorted(f[:-len("_patch.diff")] for f in os.listdir(src) if f.endswith("_patch.diff"))
    for name in names:
        patch = os.path.join(src, name + "_patch.diff")
        demo = os.path.join(src, name + "_demo.py")
        meta = json.load(open(os.path.join(src, name + "_meta.json")))
        wt = "/tmp/conf_%s_%s" % (prop, name)
        sh(["git", "-C", "/repo", "worktree", "remove", "--force", wt])
        res = sh(["git", "-C", "/repo", "worktree", "add", "-q", "--detach", wt, "HEAD"])
        if res.returncode != 0:
            print(res.stderr)
            return 2
        report = {"property": prop, "name": name, "summary": meta.get("summary"), "needs": meta.get("needs"), "files": meta.get("files")}
        try:
            head = sh(["git", "-C", wt, "rev-parse", "--short", "HEAD"]).stdout.strip()
            clean_demo = sh(["/venv/bin/python", "-B", demo, wt], cwd="/tmp")
            ap = sh(["git", "-C", wt, "apply", patch])
            if ap.returncode != 0:
                print("%s-%s: patch does not apply to %s: %s" % (prop, name, head, ap.stderr[:300]))
                continue
            tests = sh(["/venv/bin/python", "-B", "-m", "pytest", "-q", "-p", "no:cacheprovider"], cwd=wt)
            tests_line = tests.stdout.strip().splitlines()[-1] if tests.stdout.strip() else tests.stderr[-200:]
            mut_demo = sh(["/venv/bin/python", "-B", demo, wt], cwd="/tmp")
            confirmed = tests.returncode == 0 and mut_demo.returncode == 1 and clean_demo.returncode == 0
            report.update({"repo_head": head, "tests_with_change": tests_line, "demo_exit_with_change": mut_demo.returncode,
                           "demo_exit_without_change": clean_demo.returncode, "confirmed": confirmed,
                           "demo_output_with_change": (mut_demo.stdout + mut_demo.stderr)[-600:]})
            checks = {}
            for p in props:
                started = time.time()
                env = dict(os.environ, VERIF_REPO=wt)
                res = sh([os.path.join(VERIF, "vcheck"), p, "--tier", tier, "--no-evidence"], env=env)
                kinds = [l.split("kind=")[1].split(" ")[0] for l in res.stdout.splitlines() if l.startswith("violation kind=")]
                caught = res.returncode == 1 and ("VIOLATION property=%s" % p) in res.stdout
                checks[p] = {"cmd": "VERIF_REPO=<scratch worktree with the patch> ./vcheck %s --tier %s" % (p, tier), "exit": res.returncode,
                             "caught": caught, "kinds": kinds[:6], "wall_s": round(time.time() - started, 1)}
                shutil.rmtree(os.path.join(VERIF, "replays", p, "new"), ignore_errors=True)
                if res.returncode == 2:
                    print(res.stdout[-800:], res.stderr[-800:])
            report["checks"] = checks
            print("%s-%s confirmed=%s tests=%r demo=%d/%d  " % (prop, name, confirmed, tests_line[:40], mut_demo.returncode, clean_demo.returncode)
                  + "  ".join("%s:%s%s" % (p, "CAUGHT" if c["caught"] else "MISSED", c["kinds"][:2]) for p, c in checks.items()))
            if confirmed:
                dest = os.path.join(VERIF, "seeded", "%s-%s" % (prop, name))
                os.makedirs(dest, exist_ok=True)
                shutil.copy(patch, os.path.join(dest, "patch.diff"))
                shutil.copy(demo, os.path.join(dest, "demo.py"))
                report["what_i_ran"] = ["git worktree add <scratch> HEAD; git apply patch.diff; pytest (116 must pass); python demo.py <scratch> (must exit 1); "
                                        "same demo on a clean worktree (must exit 0); VERIF_REPO=<scratch> ./vcheck <id> --tier %s; git worktree remove --force <scratch>" % tier]
                with open(os.path.join(dest, "meta.json"), "w") as stream:
                    json.dump(report, stream, indent=1)
        finally:
            sh(["git", "-C", "/repo", "worktree", "remove", "--force", wt])
            shutil.rmtree(wt, ignore_errors=True)
    return 0


sys.exit(main())
