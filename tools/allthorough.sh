#!/bin/bash
# Run every check's thorough tier once (long); report exit codes, time and any violation lines.
cd "$(dirname "$0")/.."
for id in ${1:-C20 C19 C12 C05 C06 C07 C08 C14 C15 C16 C13 C04 C10 C11 C02 C17 C09 C01 C03 C18}; do
  start=$(date +%s)
  out=$(VERIF_SEED=${VERIF_SEED:-1} ./vcheck $id --tier thorough --no-evidence 2>&1); code=$?
  end=$(date +%s)
  echo "$id exit=$code $((end-start))s"
  echo "$out" | grep -E "^(C[0-9]+ tier|VIOLATION|violation|KNOWN|HARNESS)" | cut -c1-400
  if [ $code -eq 2 ]; then echo "$out" | tail -20; fi
done
