#!/venv/bin/python
"""Re-run the false-alarm test on every stored behaviour-preserving refactoring (seeded/refactorings/*_patch.diff):
apply to a scratch worktree of /repo HEAD, run the quick tier of the given checks (default: all), report alarms.
usage: tools/refac_rerun.py [--props C01,C02] [--only T1]"""
import os, subprocess, sys, shutil
VERIF = os.path.dirname(os.path.dirname(os.path.abspath(__file__)))
ALL = ["C%02d" % i for i in range(1, 21)]


def sh(cmd, **kw):
    return subprocess.run(cmd, capture_output=True, text=True, **kw)


def main():
    props = ALL
    only = None
    if "--props" in sys.argv:
        props = sys.argv[sys.argv.index("--props") + 1].split(",")
    if "--only" in sys.argv:
        only = sys.argv[sys.argv.index("--only") + 1]
    src = os.path.join(VERIF, "seeded", "refactorings")
    total = alarms = skipped = 0
    part, parts = (int(x) for x in os.environ.get("REFAC_PART", "0/1").split("/"))
    for index, name in enumerate(sorted(f for f in os.listdir(src) if f.endswith("_patch.diff"))):
        if only and not name.startswith(only):
            continue
        if index % parts != part:
            continue
        wt = "/tmp/refrerun_%s" % name[:-len("_patch.diff")]
        sh(["git", "-C", "/repo", "worktree", "remove", "--force", wt])
        sh(["git", "-C", "/repo", "worktree", "add", "-q", "--detach", wt, "HEAD"])
        try:
            ap = sh(["git", "-C", wt, "apply", os.path.join(src, name)])
            if ap.returncode != 0:
                print("%s: does not apply to the current HEAD any more (skipped)" % name, flush=True)
                skipped += 1
                continue
            tests = sh(["/venv/bin/python", "-B", "-m", "pytest", "-q", "-p", "no:cacheprovider"], cwd=wt)
            if tests.returncode != 0:
                print("%s: test-suite fails on the current HEAD (skipped)" % name, flush=True)
                skipped += 1
                continue
            bad = []
            for p in props:
                res = sh([os.path.join(VERIF, "vcheck"), p, "--tier", "quick", "--no-evidence"], env=dict(os.environ, VERIF_REPO=wt))
                total += 1
                if res.returncode != 0:
                    kinds = [l for l in res.stdout.splitlines() if l.startswith("violation kind=") or l.startswith("HARNESS")]
                    bad.append((p, res.returncode, kinds[:2]))
                shutil.rmtree(os.path.join(VERIF, "replays", p, "new"), ignore_errors=True)
            alarms += len(bad)
            print("%s: alarms=%d %s" % (name, len(bad), bad if bad else ""), flush=True)
        finally:
            sh(["git", "-C", "/repo", "worktree", "remove", "--force", wt])
            shutil.rmtree(wt, ignore_errors=True)
    print("TOTAL check runs=%d alarms=%d skipped patches=%d" % (total, alarms, skipped))


main()
