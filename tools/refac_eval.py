#!/venv/bin/python
"""False-alarm test: apply a behaviour-preserving refactoring (written by an independent sub-agent) to a scratch worktree
and run quick checks against it; every check must stay quiet (exit 0).
usage: tools/refac_eval.py <dir with Rk_patch.diff/Rk_meta.json> [--props C01,C02,...]"""
import json, os, shutil, subprocess, sys, time
VERIF = os.path.dirname(os.path.dirname(os.path.abspath(__file__)))
ALL = ["C%02d" % i for i in range(1, 21)]


def sh(cmd, **kw):
    return subprocess.run(cmd, capture_output=True, text=True, **kw)


def main():
    src = sys.argv[1]
    props = ALL
    if "--props" in sys.argv:
        props = sys.argv[sys.argv.index("--props") + 1].split(",")
    tag = os.path.basename(src.rstrip("/"))
    results = {}
    for name in sorted(f[:-len("_patch.diff")] for f in os.listdir(src) if f.endswith("_patch.diff")):
        wt = "/tmp/refconf_%s_%s" % (tag, name)
        sh(["git", "-C", "/repo", "worktree", "remove", "--force", wt])
        sh(["git", "-C", "/repo", "worktree", "add", "-q", "--detach", wt, "HEAD"])
        try:
            ap = sh(["git", "-C", wt, "apply", os.path.join(src, name + "_patch.diff")])
            if ap.returncode != 0:
                print("%s-%s: patch does not apply: %s" % (tag, name, ap.stderr[:200]))
                continue
            tests = sh(["/venv/bin/python", "-B", "-m", "pytest", "-q", "-p", "no:cacheprovider"], cwd=wt)
            line = tests.stdout.strip().splitlines()[-1] if tests.stdout.strip() else "?"
            alarms = []
            for p in props:
                res = sh([os.path.join(VERIF, "vcheck"), p, "--tier", "quick", "--no-evidence"], env=dict(os.environ, VERIF_REPO=wt))
                if res.returncode != 0:
                    kinds = [l for l in res.stdout.splitlines() if l.startswith("violation kind=") or l.startswith("HARNESS")]
                    alarms.append((p, res.returncode, kinds[:3] or res.stdout[-400:]))
                shutil.rmtree(os.path.join(VERIF, "replays", p, "new"), ignore_errors=True)
            meta = json.load(open(os.path.join(src, name + "_meta.json")))
            print("%s-%s tests=%r alarms=%d %s" % (tag, name, line[:30], len(alarms), (meta.get("summary") or "")[:110]))
            for a in alarms:
                print("   ALARM %s exit=%d %s" % (a[0], a[1], str(a[2])[:600]))
            results[name] = {"summary": meta.get("summary"), "tests": line, "alarms": [[a[0], a[1], a[2]] for a in alarms]}
        finally:
            sh(["git", "-C", "/repo", "worktree", "remove", "--force", wt])
            shutil.rmtree(wt, ignore_errors=True)
    out = os.path.join(VERIF, "seeded", "refactorings")
    os.makedirs(out, exist_ok=True)
    for name in results:
        shutil.copy(os.path.join(src, name + "_patch.diff"), os.path.join(out, "%s-%s_patch.diff" % (tag, name)))
    with open(os.path.join(out, "%s_results.json" % tag), "w") as stream:
        json.dump(results, stream, indent=1)


main()
