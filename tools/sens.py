#!/venv/bin/python
"""Sensitivity meta-check (not a registered property check).

tools/mutants/<ID>.json lists small realistic changes to the repository:
  [{"name": ..., "file": "trees/transform.py", "old": "...", "new": "...", "count": 1}, ...]
Each is applied to a scratch copy of $VERIF_REPO|/repo (outside /repo and /verif, deleted afterwards);
the repository's own test-suite must still pass there, and the quick check must report a violation.
usage: tools/sens.py C12 [mutant-name ...] [--tier quick] [--keep-going] [--skip-tests]
"""
import json, os, shutil, subprocess, sys, tempfile, time

VERIF = os.path.dirname(os.path.dirname(os.path.abspath(__file__)))
REPO = os.environ.get("VERIF_REPO", "/repo")


def main():
    args = [a for a in sys.argv[1:] if not a.startswith("--")]
    flags = [a for a in sys.argv[1:] if a.startswith("--")]
    prop = args[0]
    only = set(args[1:])
    tier = "thorough" if "--thorough" in flags else "quick"
    with open(os.path.join(VERIF, "tools", "mutants", prop + ".json")) as stream:
        mutants = json.load(stream)
    missed = []
    for mut in mutants:
        if only and mut["name"] not in only:
            continue
        scratch = tempfile.mkdtemp(prefix="sens_%s_" % prop)
        try:
            for item in ("trees", "tests", "treetools", "setup.py"):
                src = os.path.join(REPO, item)
                if os.path.isdir(src):
                    shutil.copytree(src, os.path.join(scratch, item), ignore=shutil.ignore_patterns("__pycache__"))
                else:
                    shutil.copy(src, os.path.join(scratch, item))
            edits = mut.get("edits") or [mut]
            applies = True
            for edit in edits:
                path = os.path.join(scratch, edit["file"])
                text = open(path).read()
                want = edit.get("count", 1)
                if text.count(edit["old"]) != want:
                    print("MUTANT %-40s DOES-NOT-APPLY (%d occurrences, wanted %d)" % (mut["name"], text.count(edit["old"]), want))
                    applies = False
                    break
                open(path, "w").write(text.replace(edit["old"], edit["new"]))
            if not applies:
                missed.append(mut["name"] + " (does not apply)")
                continue
            tests = "skipped"
            if "--skip-tests" not in flags:
                res = subprocess.run(["/venv/bin/python", "-B", "-m", "pytest", "-q", "-x", "-p", "no:cacheprovider", "tests"],
                                     cwd=scratch, capture_output=True, text=True)
                tests = "pass" if res.returncode == 0 else "FAIL"
            env = dict(os.environ, VERIF_REPO=scratch)
            started = time.time()
            res = subprocess.run([os.path.join(VERIF, "vcheck"), prop, "--tier", tier, "--no-evidence"], env=env,
                                 capture_output=True, text=True)
            caught = res.returncode == 1 and "VIOLATION property=%s" % prop in res.stdout
            kinds = [l.split("kind=")[1].split(" ")[0] for l in res.stdout.splitlines() if l.startswith("violation kind=")]
            print("MUTANT %-40s tests=%-7s %s exit=%d %.0fs kinds=%s" % (mut["name"], tests, "CAUGHT" if caught else "MISSED", res.returncode, time.time() - started, kinds[:4]))
            if res.returncode == 2:
                print(res.stdout[-1500:], res.stderr[-1500:])
            if not caught:
                missed.append(mut["name"])
        finally:
            shutil.rmtree(scratch, ignore_errors=True)
    # remove replay files the mutated runs produced
    shutil.rmtree(os.path.join(VERIF, "replays", prop, "new"), ignore_errors=True)
    print("missed: %s" % missed)
    return 1 if missed else 0


if __name__ == "__main__":
    sys.exit(main())
