#!/bin/bash
# Whole sensitivity catalogue (hand-written mutants) against the quick tier; prints MISSED lines and a summary.
cd "$(dirname "$0")/.."
for id in ${1:-C01 C02 C03 C04 C05 C06 C07 C08 C09 C10 C11 C12 C13 C14 C15 C16 C17 C18 C19 C20}; do
  tools/sens.py $id --skip-tests 2>&1 | grep -E "^MUTANT|^missed" | sed "s/^/$id /" | cut -c1-200
done
